"""C29  VTK export writes what was simulated.

Structural clauses decided:
 R1 dataset/file pairing   in Export.export_contr every loop iteration registers exactly one DataSet and writes exactly one file,
                           both from the same `file_i`, time-stamped with `sol_i.t` of the same iteration, in iteration order;
                           the collection (.pvd) is written after the loop
 R2 index discipline       in every `export` method and everything it calls inside its class, a global solution array
                           (sol_i.q, u, la_c, la_g, P_N, P_F, ...) is subscripted with the contribution's matching global index set
                           (qDOF, uDOF, la_cDOF, la_gDOF, la_NDOF, la_FDOF) before any other indexing
 R3 one time               all kinematic evaluations inside one export use sol_i.t
 R4 uniform subsampling    Export.__prepare_data subsamples every field with the same stride
"""
from __future__ import annotations

import ast

from ..core import AnalysisError, dotted, norm_src, walk_no_nested
from ..cfg import CFG
from .. import protocol

EXPLANATION = ("CFG must-pass-through for the DataSet/file pairing; inter-procedural (class-local) tracking of global solution "
               "arrays through locals and method parameters down to their first subscript; argument check of kinematic calls.")
NOT_DECIDED = "VTK writer semantics and numerical equality of the written coordinates."
ASSUMPTIONS = ["sol_i fields are the system-level arrays of one time instant (SolutionIterator)"]
BLIND_SPOTS = ["a wrong local index applied after the correct global one"]
VTK = "cardillo/visualization/vtk_export.py"
KIND = {"q": "qDOF", "q_dot": "qDOF", "u": "uDOF", "u_dot": "uDOF", "la_c": "la_cDOF", "la_g": "la_gDOF", "P_g": "la_gDOF", "la_gamma": "la_gammaDOF",
        "P_gamma": "la_gammaDOF", "la_N": "la_NDOF", "P_N": "la_NDOF", "la_F": "la_FDOF", "P_F": "la_FDOF"}


def rectangle_axes(ctx, rule="C29.R15"):
    """K15 idea: width is the extent along e_y^B = d2, height along e_z^B = d3.  Two written forms are read: products `d2 * self.width`,
    `d3 * self.height` (a product of d2 with the height, or d3 with the width, is the swap), and a literal table of corner coordinates
    multiplied with np.array([d2, d3]) (first column = width entries, second column = height entries)."""
    rep = ctx.rep
    CS = "cardillo/rods/_cross_section.py"
    fn = ctx.repo.maybe(CS, "RectangularCrossSection.vtk_compute_points")
    C = f"{CS}:RectangularCrossSection.vtk_compute_points"
    if fn is None:
        rep.ok(rule, C, "routine not found (no verdict)", verdict="unknown", trivial=True)
        return
    n = 0
    bad = None
    for w in ast.walk(fn):
        if isinstance(w, ast.BinOp) and isinstance(w.op, (ast.Mult, ast.Div)):
            # maximal product chains only
            pa = getattr(w, "_parent", None)
            if isinstance(pa, ast.BinOp) and isinstance(pa.op, (ast.Mult, ast.Div)):
                continue
            names = {x.id for x in ast.walk(w) if isinstance(x, ast.Name)}
            attrs = {x.attr for x in ast.walk(w) if isinstance(x, ast.Attribute) and dotted(x.value) == "self"}
            if names & {"d2", "d3"} and attrs & {"width", "height"}:
                n += 1
                if ("d2" in names and "height" in attrs and "width" not in attrs) or ("d3" in names and "width" in attrs and "height" not in attrs):
                    bad = bad or w
        elif isinstance(w, ast.Call) and (dotted(w.func) or "").split(".")[-1] == "array" and w.args and isinstance(w.args[0], (ast.List, ast.Tuple)) \
                and all(isinstance(r, (ast.List, ast.Tuple)) and len(r.elts) == 2 for r in w.args[0].elts) and len(w.args[0].elts) >= 2:
            cols = [[{x.attr for x in ast.walk(r.elts[k]) if isinstance(x, ast.Attribute)} for r in w.args[0].elts] for k in (0, 1)]
            if any(c & {"width", "height"} for col in cols for c in col):
                n += 1
                if any("height" in c for c in cols[0]) or any("width" in c for c in cols[1]):
                    bad = bad or w
    if bad is not None:
        rep.bad(rule, C, bad, f"`{norm_src(bad)[:80]}` pairs the height with d2 / the width with d3: the exported box is turned by 90 degrees about the rod axis (points r_OP +- h/2 e_y +- w/2 e_z), so for "
                "width != height the written points are not the rod's geometry", f"{CS}:{bad.lineno}")
    elif n:
        rep.ok(rule, C, f"{n} width / height terms paired with d2 / d3 as the class defines them")
    else:
        rep.ok(rule, C, "no width / height term recognised (no verdict)", verdict="unknown", trivial=True)


def timestep_format(ctx, rule="C29.R14"):
    """'lists existing data files in time order, one per exported frame': the listed time is the frame's time to a fixed absolute resolution.
    A general format keeps a fixed number of SIGNIFICANT digits, so its absolute resolution degrades with |t| (late start, long horizon)."""
    rep = ctx.rep
    VT = "cardillo/visualization/vtk_export.py"
    cls = ctx.repo.get(VT, "Export")
    n = 0
    for fn in [f for f in cls.body if isinstance(f, ast.FunctionDef)]:
        for c in [w for w in ast.walk(fn) if isinstance(w, ast.Call) and isinstance(w.func, ast.Attribute) and w.func.attr == "setAttribute" and len(w.args) == 2
                  and isinstance(w.args[0], ast.Constant) and w.args[0].value == "timestep"]:
            n += 1
            C = f"{VT}:Export.{fn.name}"
            v = c.args[1]
            specs = [norm_src(x.format_spec).strip("f'\"") if x.format_spec is not None else "" for x in ast.walk(v) if isinstance(x, ast.FormattedValue)]
            if isinstance(v, ast.JoinedStr) and specs:
                sp = specs[0]
                if sp.endswith(("g", "G", "e", "E")) or sp == "":
                    rep.bad(rule, C, c, f"`{norm_src(c)[:70]}` writes the frame time with format `{sp or 'str()'}`: a fixed number of significant digits - frames at t = 20000.00, 20000.01, ... are all "
                            "listed as 20000, the collection is no longer in strict time order and a file is listed under a time it was not computed for", f"{VT}:{c.lineno}")
                else:
                    rep.ok(rule, C, f"timestep written with fixed format `{sp}`")
            else:
                rep.ok(rule, C, f"`{norm_src(v)[:40]}`: format of the listed time not recognised (no verdict)", verdict="unknown")
    if n < 1:
        rep.ok(rule, VT, "no timestep attribute written (no verdict)", verdict="unknown", trivial=True)


def export_element_of_xi(ctx, rule="C29.R13"):
    """The rod kernels are evaluated with the element's coordinates `q[self.elDOF[el]]` and the basis functions at xi; both only fit together
    if el is the element whose knot span contains xi.  In the export routines every call of a rod method that takes both `xi` and `el`
    must pass an `el` that comes from `self.element_number(<the same xi>)` (an adjustment `el -= 1` at a span boundary keeps the provenance)."""
    rep = ctx.rep
    rel = "cardillo/rods/_base_export.py"
    mod = ctx.repo.modules.get(rel)
    if mod is None:
        rep.ok(rule, rel, "module not found (no verdict)", verdict="unknown", trivial=True)
        return
    n = 0
    for cls in [c for c in ast.walk(mod.tree) if isinstance(c, ast.ClassDef)]:
        meths = {f.name: [a.arg for a in f.args.args] for f in cls.body if isinstance(f, ast.FunctionDef)}
        for fn in [f for f in cls.body if isinstance(f, ast.FunctionDef)]:
            binds = {}
            for w in ast.walk(fn):
                if isinstance(w, ast.Assign) and len(w.targets) == 1 and isinstance(w.targets[0], ast.Name):
                    binds.setdefault(w.targets[0].id, []).append(w.value)
            for c in [w for w in ast.walk(fn) if isinstance(w, ast.Call) and isinstance(w.func, ast.Attribute) and dotted(w.func.value) == "self" and w.func.attr in meths]:
                ps = meths[c.func.attr][1:]
                if "xi" not in ps or "el" not in ps:
                    continue
                def arg(name):
                    i = ps.index(name)
                    if i < len(c.args):
                        return c.args[i]
                    return next((k.value for k in c.keywords if k.arg == name), None)
                a_el, a_xi = arg("el"), arg("xi")
                if a_el is None or a_xi is None or (isinstance(a_el, ast.Constant) and a_el.value is None):
                    continue
                n += 1
                C = f"{rel}:{cls.name}.{fn.name}"
                srcs = binds.get(a_el.id, []) if isinstance(a_el, ast.Name) else [a_el]
                ok_ = any(isinstance(x, ast.Call) and (dotted(x.func) or "").split(".")[-1] == "element_number" and x.args and norm_src(x.args[0]) == norm_src(a_xi)
                          for v in srcs for x in ast.walk(v))
                if ok_:
                    rep.ok(rule, C, f"`{norm_src(c)[:60]}`: el comes from element_number({norm_src(a_xi)})")
                else:
                    rep.bad(rule, C, c, f"`{norm_src(c)[:70]}` evaluates at xi = `{norm_src(a_xi)}` in element `{norm_src(a_el)}` = {[norm_src(v)[:30] for v in srcs] or '?'}, which is not "
                            "`self.element_number(xi)`: with ncells != nelement the kernel gets another element's coordinates together with basis functions at xi, and the written vectors are "
                            "not the rod's geometry at that point", f"{rel}:{c.lineno}")
    if n < 1:
        rep.ok(rule, rel, "no call with both xi and el found (no verdict)", verdict="unknown", trivial=True)


def merge_is_concatenation(ctx, rule="C29.R11"):
    """export() methods return their data either as lists of rows or as ndarrays (Sphere2Plane's P_F, the rods' RationalWeights, ...).  The
    helper that merges the members of a list export has to append rows in both cases.  `a += b` / `a + b` appends for lists and ADDS
    element-wise for arrays (and mutates the first member's array in place), so on an entry whose representation is not established by an
    isinstance(list) guard it is a violation."""
    from ..model import guards_of
    rep = ctx.rep
    VT = "cardillo/visualization/vtk_export.py"
    cls = ctx.repo.get(VT, "Export")
    helpers = [f for f in cls.body if isinstance(f, ast.FunctionDef) and f.name.endswith("add_key")]
    if not helpers:
        # the merge may be inlined into the list export
        helpers = [f for f in cls.body if isinstance(f, ast.FunctionDef) and f.name.endswith("export_list")]
    if not helpers:
        rep.ok(rule, f"{VT}:Export", "merge routine of list exports not found (no verdict)", verdict="unknown", trivial=True)
        return
    for fn in helpers:
        C = f"{VT}:Export.{fn.name}"
        params = {a.arg for a in fn.args.args}
        n_ok = 0
        bad = False

        def is_entry(e):
            return isinstance(e, ast.Subscript) and isinstance(e.value, ast.Name) and (e.value.id in params or e.value.id.endswith("_data"))
        for w in ast.walk(fn):
            site = None
            if isinstance(w, ast.AugAssign) and isinstance(w.op, ast.Add) and is_entry(w.target):
                site = w
            elif isinstance(w, ast.Assign) and isinstance(w.value, ast.BinOp) and isinstance(w.value.op, ast.Add) and any(is_entry(t) for t in w.targets) \
                    and (is_entry(w.value.left) or is_entry(w.value.right)):
                site = w
            if site is not None:
                gs = guards_of(site, fn)
                guarded = any(pol and t.replace(" ", "").startswith("isinstance(") and t.replace(" ", "").endswith(",list)") for (t, pol) in gs)
                if guarded:
                    n_ok += 1
                else:
                    bad = True
                    rep.bad(rule, C, site, f"`{norm_src(site)[:70]}` merges an entry with `+`: for members that return this data as an ndarray (friction percussions, rational weights) the rows are "
                            "added element-wise onto the first member's rows (and into its own array) instead of being appended, so the file holds fewer tuples than points and sums of "
                            "several members' data", f"{VT}:{site.lineno}")
            if isinstance(w, ast.Call) and ((isinstance(w.func, ast.Attribute) and w.func.attr == "extend") or (dotted(w.func) or "").split(".")[-1] in ("vstack", "concatenate", "append", "row_stack")):
                n_ok += 1
        if not bad:
            if n_ok:
                rep.ok(rule, C, f"{n_ok} row-appending merge operation(s); no unguarded `+` on an entry")
            else:
                rep.ok(rule, C, "no merge operation recognised (no verdict)", verdict="unknown", trivial=True)


def run(ctx):
    rep = ctx.rep
    rep.rule("C29.R15", "rectangular cross-section: in the exported corner points the WIDTH multiplies the d2 direction and the HEIGHT the d3 direction (the convention of the class: area, second moments, B_r_PQ)", 1)
    rectangle_axes(ctx)
    rep.rule("C29.R14", "the collection lists every frame at its own time: the timestep attribute is written in FIXED notation (a 'g' / significant-digit format rounds t = 20000.03 to 20000 and neighbouring frames collapse onto one listed time)", 1)
    timestep_format(ctx)
    rep.rule("C29.R13", "rod export: a quantity evaluated at (xi, el) gets the element that CONTAINS xi (self.element_number(xi)), not the index of the vtk cell - cells and elements differ as soon as ncells != nelement", 1)
    export_element_of_xi(ctx)
    rep.rule("C29.R12", "export routines do not serve remembered geometry across frames unless the memory is keyed by everything the geometry depends on - the frame's TIME included (a prescribed-motion Frame has no coordinates: its pose depends on sol_i.t alone)", 0)
    from . import c26 as _c26
    _c26.attribute_memos(ctx, "C29.R12", lambda rel: rel.startswith("cardillo/") and not rel.startswith("cardillo/solver/"))
    rep.rule("C29.R11", "list exports merge the members' point / cell data by ROW CONCATENATION in both representations (list: extend, array: vstack / concatenate); `+` / `+=` on an entry is concatenation for lists only and needs an isinstance(list) guard", 1)
    merge_is_concatenation(ctx)
    rep.rule("C29.R1", "one DataSet and one file per frame from the same file_i; collection written after the loop", 5)
    rep.rule("C29.R2", "global solution arrays are indexed with the matching global DOF set first", 25)
    rep.rule("C29.R3", "kinematic calls of an export use sol_i.t", 20)
    rep.rule("C29.R4", "uniform stride in __prepare_data", 1)
    rep.rule("C29.R7", "exported orientations come from the normalising rotation kernel (stored quaternions of ScipyIVP / ScipyDAE solutions are not unit)", 4)
    from .c11 import normalising_rule
    normalising_rule(ctx, "C29.R7", lambda rel: rel == "cardillo/discrete/rigid_body.py", 4)
    rep.rule("C29.R6", "an exported point and the velocity written for it name the same material point (same body-fixed offset attributes)", 4)
    rep.rule("C29.R5", "the exported solution is a pure row selection of the solver's solution (no arithmetic on time or state); nobody rewrites it", 3)
    r1(ctx)
    r2_r3(ctx)
    r4(ctx)
    r5(ctx)
    r6(ctx)
    rep.rule("C29.R10", "exported angular velocities are written in the inertial basis (A_IB @ B_Omega), like the basis vectors written next to them", 3)
    r10_omega_basis(ctx)
    rep.rule("C29.R9", "the file name handed out for an export is the one that was tested (and, with a registry, recorded) as unused", 1)
    r9_unique_names(ctx)
    rep.rule("C29.R8", "lever arms handed to the point protocol in export methods are relative vectors (no uncancelled origin-based position)", 2)
    r8(ctx)


def r1(ctx):
    rep = ctx.rep
    fn = ctx.repo.get(VTK, "Export.export_contr")
    C = f"{VTK}:Export.export_contr"
    cfg = CFG(fn)
    loops = [n for n in walk_no_nested(fn) if isinstance(n, ast.For) and "self.solution" in norm_src(n.iter)]
    if not loops:
        raise AnalysisError("frame loop `for i, sol_i in enumerate(self.solution)` not found")
    loop = loops[0]
    hdr = cfg.node_of(loop)
    tgt = norm_src(loop.target)
    if norm_src(loop.iter) == "enumerate(self.solution)":
        rep.ok("C29.R1", C, f"for {tgt} in enumerate(self.solution): frames in solution order")
    else:
        rep.bad("C29.R1", C, loop.iter, "frames are not visited in solution order (enumerate(self.solution))", f"{VTK}:{loop.lineno}")
    svar = [e.id for e in ast.walk(loop.target) if isinstance(e, ast.Name)][-1]

    def calls(attr):
        return [n for n in cfg.nodes if n.kind == "stmt" and isinstance(n.ast, ast.Expr) and isinstance(n.ast.value, ast.Call)
                and isinstance(n.ast.value.func, ast.Attribute) and n.ast.value.func.attr.endswith(attr)]
    ds, sf, wr = calls("write_time_step_and_name"), calls("SetFileName"), calls("Write")
    for name, nodes in (("DataSet registration", ds), ("SetFileName", sf), ("Write", wr)):
        if len(nodes) != 1:
            rep.bad("C29.R1", C, name, f"{len(nodes)} `{name}` statements in the frame loop (exactly one per frame required)", f"{VTK}:{loop.lineno}")
            return
        n = nodes[0]
        # executed exactly once per iteration: every path header(body) -> header passes n
        p = cfg.find_path([(hdr, "body")], hdr, blocked=lambda m, n=n: m is n)
        if p is not None or not _inside(loop, n.ast):
            rep.bad("C29.R1", C, n.ast, f"`{name}` is not executed on every frame (a frame can be listed without a file or vice versa)", f"{VTK}:{n.lineno}")
        else:
            rep.ok("C29.R1", C, f"{norm_src(n.ast)} on every frame")
    a_ds = [norm_src(a) for a in ds[0].ast.value.args]
    a_sf = [norm_src(a) for a in sf[0].ast.value.args]
    if len(a_ds) == 2 and a_ds[0] == f"{svar}.t" and a_sf and a_ds[1] == a_sf[0]:
        fdef = [n for n in ast.walk(loop) if isinstance(n, ast.Assign) and norm_src(n.targets[0]) == a_sf[0]]
        idx = [e.id for e in ast.walk(loop.target) if isinstance(e, ast.Name)][0]
        if len(fdef) == 1 and ("{" + idx + "}") in norm_src(fdef[0].value):
            rep.ok("C29.R1", C, f"DataSet({a_ds[0]}, {a_ds[1]}) and SetFileName({a_sf[0]}) use the same per-frame file {norm_src(fdef[0].value)}")
        else:
            rep.bad("C29.R1", C, fdef[0] if fdef else a_sf[0], "the per-frame file name does not depend on the frame index (files overwrite each other)", f"{VTK}:{loop.lineno}")
    else:
        rep.bad("C29.R1", C, ds[0].ast, f"the DataSet entry ({', '.join(a_ds)}) and the written file ({', '.join(a_sf)}) do not refer to the same file / frame time", f"{VTK}:{ds[0].lineno}")
    pv = calls("_write_pvd_file")
    if len(pv) == 1 and not _inside(loop, pv[0].ast) and cfg.can_reach([(hdr, "exit")], pv[0]) and not cfg.can_reach([(hdr, "exit")], cfg.exit, blocked=lambda m: m is pv[0]):
        rep.ok("C29.R1", C, "collection file written once after the frame loop")
    else:
        rep.bad("C29.R1", C, pv[0].ast if pv else "self._write_pvd_file(...)", "the collection file is not written exactly once after all frames", f"{VTK}:{fn.lineno}")


def _inside(loop, node):
    p = node
    while p is not None:
        if p is loop:
            return True
        p = getattr(p, "_parent", None)
    return False


class Tracker:
    def __init__(self, ctx, view, C0, rel):
        self.ctx, self.view, self.rep, self.C0, self.rel = ctx, view, ctx.rep, C0, rel
        self.seen = set()
        self._cache = {}

    def _flow(self, fn):
        k = id(fn)
        if k not in self._cache:
            from ..dataflow import ReachingDefs
            cfg = CFG(fn)
            self._cache[k] = (cfg, ReachingDefs(cfg))
        return self._cache[k]

    def follow(self, fn, sn, var, kind, chain, rel=None, is_param=True):
        """`var` holds a global array of `kind` in fn: as a parameter (is_param) or through `var = sol_i.<kind>`."""
        key = (id(fn), var, kind)
        if key in self.seen:
            return
        self.seen.add(key)
        rel = rel or self.rel
        cfg, rd = self._flow(fn)
        from ..core import enclosing_stmt
        # definition nodes that put a GLOBAL array into a name
        gdefs = set()
        if is_param:
            gdefs.add((cfg.entry.id, var))
        changed = True
        while changed:
            changed = False
            for node in cfg.nodes:
                if node.kind != "stmt" or not isinstance(node.ast, ast.Assign) or len(node.ast.targets) != 1 or not isinstance(node.ast.targets[0], ast.Name):
                    continue
                tgt = node.ast.targets[0].id
                v = node.ast.value
                is_g = False
                if isinstance(v, ast.Attribute) and isinstance(v.value, ast.Name) and v.attr == kind and not is_param and tgt == var and norm_src(v).endswith("." + kind):
                    is_g = True
                elif isinstance(v, ast.Name) and any((d.id, v.id) in gdefs for d in rd.defs_reaching(node, v.id)):
                    is_g = True
                if is_g and (node.id, tgt) not in gdefs:
                    gdefs.add((node.id, tgt))
                    changed = True

        def holds_global(node, name):
            return any((d.id, name) in gdefs for d in rd.defs_reaching(node, name))

        want = f"{sn}.{KIND[kind]}"
        for n in walk_no_nested(fn):
            st = enclosing_stmt(n)
            node = cfg.node_of(st) if st is not None else None
            if node is None:
                # statement headers (if/for tests) are separate CFG nodes keyed by their owner
                continue
            if isinstance(n, ast.Subscript) and isinstance(n.value, ast.Name) and holds_global(node, n.value.id):
                self.judge(n, want, kind, chain, fn, rel)
            if isinstance(n, ast.Call) and isinstance(n.func, ast.Attribute) and isinstance(n.func.value, ast.Name) and n.func.value.id == sn:
                glob_args = {a.id for a in list(n.args) + [k.value for k in n.keywords] if isinstance(a, ast.Name) and holds_global(node, a.id)}
                if glob_args:
                    self.through_call(n, glob_args, kind, chain + [f"{getattr(fn, 'name', '<lambda>')}"])

    def judge(self, sub, want, kind, chain, fn, rel=None):
        rel = rel or self.rel
        idx = norm_src(sub.slice)
        C = f"{self.C0}"
        path = " -> ".join(chain + [getattr(fn, "name", "<lambda>")])
        if idx == want or idx.startswith(want + "["):
            self.rep.ok("C29.R2", C, f"{path}: {norm_src(sub)}")
        elif "DOF" in idx and idx.split(".")[-1].split("[")[0] in KIND.values():
            self.rep.bad("C29.R2", C, sub, f"{path}: the global `{kind}` array is indexed with `{idx}` (index set of another kind) instead of {want}",
                         f"{rel}:{sub.lineno}")
        else:
            self.rep.bad("C29.R2", C, sub, f"{path}: the global solution array `{kind}` is indexed with the local table `{idx}` before the contribution's "
                         f"global index set {want} was applied: the data of another contribution is read unless this one owns the first coordinates",
                         f"{rel}:{sub.lineno}")

    def through_call(self, call, aliases, kind, chain):
        m = call.func.attr
        hits = []
        for i, a in enumerate(call.args):
            if isinstance(a, ast.Name) and a.id in aliases:
                hits.append(("pos", i))
        for k in call.keywords:
            if isinstance(k.value, ast.Name) and k.value.id in aliases and k.arg:
                hits.append(("kw", k.arg))
        if not hits:
            return
        # every definition of m reachable for any concrete class (all variants)
        bodies = []
        model = self.ctx.model
        classes = [self.view.ci] + model.subclasses(self.view.ci)  # mixins (RodExportBase) dispatch into their subclasses
        for cls in classes:
            for variant in model.variants(cls):
                for c in model.mro(cls, variant):
                    if m in c.methods and c.methods[m] not in [b for b, _ in bodies]:
                        bodies.append((c.methods[m], c.rel))
        for fn2, rel2 in bodies:
            params = [a.arg for a in fn2.args.args]
            sn2 = params[0] if params else "self"
            for how, which in hits:
                if how == "pos":
                    if which + 1 < len(params):
                        self.follow(fn2, sn2, params[which + 1], kind, chain, rel2)
                else:
                    if which in params:
                        self.follow(fn2, sn2, which, kind, chain, rel2)


def r2_r3(ctx):
    rep = ctx.rep
    model = ctx.model
    n_exp = 0
    done = set()
    for ci in model.all_classes():
        if "export" not in ci.methods or ci.rel.startswith(("cardillo/visualization/", "cardillo/system.py")):
            continue
        fn = ci.methods["export"]
        params = [a.arg for a in fn.args.args]
        if len(params) < 2:
            continue
        sn, sol = params[0], params[1]
        C = f"{ci.rel}:{ci.qual}.export"
        if C in done:
            continue
        done.add(C)
        n_exp += 1
        view = protocol.ClassView(ctx, ci, model.variants(ci)[0])
        tr = Tracker(ctx, view, C, ci.rel)
        # occurrences of sol_i.X
        n_use = 0
        for n in walk_no_nested(fn):
            if isinstance(n, ast.Attribute) and isinstance(n.value, ast.Name) and n.value.id == sol and n.attr in KIND:
                par = getattr(n, "_parent", None)
                n_use += 1
                if isinstance(par, ast.Subscript) and par.value is n:
                    idx = norm_src(par.slice)
                    want = f"{sn}.{KIND[n.attr]}"
                    if idx == want:
                        rep.ok("C29.R2", C, norm_src(par))
                    else:
                        rep.bad("C29.R2", C, par, f"global `{n.attr}` array is indexed with `{idx}` instead of {want}", f"{ci.rel}:{par.lineno}")
                elif isinstance(par, ast.Assign) and par.value is n and isinstance(par.targets[0], ast.Name):
                    tr.follow(fn, sn, par.targets[0].id, n.attr, [], ci.rel, is_param=False)
                elif isinstance(par, (ast.Call, ast.keyword)):
                    # passed on directly
                    call = par if isinstance(par, ast.Call) else getattr(par, "_parent", None)
                    if isinstance(call, ast.Call) and isinstance(call.func, ast.Attribute) and isinstance(call.func.value, ast.Name) and call.func.value.id == sn:
                        tmp = f"__{n.attr}"
                        rep.note(f"C29.R2: {C}: sol_i.{n.attr} passed directly to self.{call.func.attr} (not followed)")
                    else:
                        rep.note(f"C29.R2: {C}: sol_i.{n.attr} handed to an external call: {norm_src(call)[:60] if call is not None else ''}")
                else:
                    rep.note(f"C29.R2: {C}: unclassified use of sol_i.{n.attr}")
        if n_use == 0:
            rep.ok("C29.R2", C, "export uses no solution arrays besides time", trivial=True)
        # R3: kinematic calls use sol_i.t
        for n in walk_no_nested(fn):
            if isinstance(n, ast.Call) and isinstance(n.func, ast.Attribute) and n.args:
                d = dotted(n.func.value) or ""
                if d == sn or d.startswith(sn + "."):
                    a0 = n.args[0]
                    if isinstance(a0, ast.Attribute) and isinstance(a0.value, ast.Name) and a0.value.id == sol:
                        if a0.attr == "t":
                            rep.ok("C29.R3", C, f"{norm_src(n.func)}({sol}.t, ...)")
                        elif n.func.attr not in ("export",):
                            pass
                    elif isinstance(a0, ast.Name) and a0.id == sol:
                        continue  # delegation export(sol_i)
                    elif any(isinstance(x, ast.Attribute) and isinstance(x.value, ast.Name) and x.value.id == sol for a in n.args[1:] for x in ast.walk(a)):
                        # a kinematic call that takes solution data but not sol_i.t as time
                        first = norm_src(a0)
                        tdefs = [m for m in walk_no_nested(fn) if isinstance(m, ast.Assign) and norm_src(m.targets[0]) == first and norm_src(m.value) == f"{sol}.t"]
                        if tdefs:
                            rep.ok("C29.R3", C, f"{norm_src(n.func)}({first} = {sol}.t, ...)")
                        elif n.func.attr in ("frames", "centerline", "surface", "surface_normal", "nodes", "nodalFrames"):
                            continue  # time-independent geometry helpers of rods (take q only)
                        else:
                            rep.bad("C29.R3", C, n, f"`{norm_src(n.func)}` is evaluated with time `{first}` instead of {sol}.t of the exported frame", f"{ci.rel}:{n.lineno}")
    if n_exp < 8:
        raise AnalysisError(f"only {n_exp} export methods found")


def r4(ctx):
    rep = ctx.rep
    fn = ctx.repo.get(VTK, "Export.__prepare_data")
    C = f"{VTK}:Export.__prepare_data"
    subs = [n for n in ast.walk(fn) if isinstance(n, ast.Subscript) and isinstance(n.slice, ast.Slice) and n.slice.step is not None]
    loops = [n for n in ast.walk(fn) if isinstance(n, ast.For) and norm_src(n.iter) == "keys"]
    if len(subs) == 1 and loops and _inside(loops[0], subs[0]) and norm_src(subs[0].slice.step) == "frac" and subs[0].slice.lower is None:
        rep.ok("C29.R4", C, f"every key subsampled by {norm_src(subs[0])}")
    else:
        rep.bad("C29.R4", C, subs[0] if subs else "[::frac]", "fields are not all subsampled with the same stride from index 0 (frames of different fields would disagree)", f"{VTK}:{fn.lineno}")


def _is_selection(v, dictname):
    """solution.<field>[slice] / solution.__getattribute__(key)[slice] / getattr(solution, key)[slice] / None."""
    if isinstance(v, ast.Constant) and v.value is None:
        return True
    if isinstance(v, ast.Subscript) and isinstance(v.slice, ast.Slice):
        a = v.value
        if isinstance(a, ast.Attribute) and isinstance(a.value, ast.Name) and a.value.id == "solution":
            return True
        if isinstance(a, ast.Call):
            d = dotted(a.func)
            if d == "solution.__getattribute__" or (d == "getattr" and a.args and norm_src(a.args[0]) == "solution"):
                return True
    return False


def r5(ctx):
    rep = ctx.rep
    fn = ctx.repo.get(VTK, "Export.__prepare_data")
    C = f"{VTK}:Export.__prepare_data"
    sol_assign = [n for n in ast.walk(fn) if isinstance(n, ast.Assign) and norm_src(n.targets[0]) == "self.solution"]
    if len(sol_assign) != 1 or not isinstance(sol_assign[0].value, ast.Call) or dotted(sol_assign[0].value.func) != "Solution":
        raise AnalysisError(f"{C}: `self.solution = Solution(...)` not found")
    call = sol_assign[0].value
    splat = [k.value.id for k in call.keywords if k.arg is None and isinstance(k.value, ast.Name)]
    if len(splat) != 1:
        raise AnalysisError(f"{C}: the fields of the exported solution are not passed as one **dict")
    dname = splat[0]
    stores = [n for n in ast.walk(fn) if isinstance(n, (ast.Assign, ast.AugAssign))
              and any(isinstance(t, ast.Subscript) and isinstance(t.value, ast.Name) and t.value.id == dname
                      for t in (n.targets if isinstance(n, ast.Assign) else [n.target]))]
    if not stores:
        raise AnalysisError(f"{C}: no store into `{dname}` found")
    for st in stores:
        if isinstance(st, ast.Assign) and _is_selection(st.value, dname):
            rep.ok("C29.R5", C, f"{norm_src(st)}: a row selection of the solver's field")
        else:
            rep.bad("C29.R5", C, st, f"a field of the exported solution is computed (`{norm_src(st.value)[:80]}`) instead of selected from the solver's solution: the files would "
                    "pair a time / state that was never simulated with the frames", f"{VTK}:{st.lineno}")
    for k in call.keywords:
        if k.arg is not None and not (isinstance(k.value, ast.Attribute) and isinstance(k.value.value, ast.Name) and k.value.value.id == "solution"):
            rep.bad("C29.R5", C, k.value, f"Solution field `{k.arg}` of the exported solution is not taken from the solver's solution", f"{VTK}:{k.value.lineno}")
    # nobody else rewrites the exported solution or a frame record
    cls = ctx.repo.get(VTK, "Export")
    writers = []
    for m in [x for x in cls.body if isinstance(x, ast.FunctionDef)]:
        for n in ast.walk(m):
            tg = n.targets if isinstance(n, ast.Assign) else [n.target] if isinstance(n, (ast.AugAssign, ast.AnnAssign)) else []
            for t in tg:
                for tt in (t.elts if isinstance(t, (ast.Tuple, ast.List)) else [t]):
                    base = tt
                    while isinstance(base, (ast.Subscript, ast.Attribute)) and norm_src(base) not in ("self.solution",):
                        if isinstance(base, ast.Attribute) and isinstance(base.value, ast.Name) and base.value.id in ("sol_i",):
                            break
                        base = base.value
                    txt = norm_src(base)
                    if (txt == "self.solution" or txt.startswith("sol_i.")) and not (m.name.endswith("__prepare_data") and n is sol_assign[0]):
                        writers.append((m.name, n))
    if writers:
        for mname, n in writers:
            rep.bad("C29.R5", f"{VTK}:Export.{mname}", n, "the exported solution (or a frame record of it) is rewritten after it was selected from the solver's solution", f"{VTK}:{n.lineno}")
    else:
        rep.ok("C29.R5", f"{VTK}:Export", "self.solution is assigned once (in __prepare_data) and neither it nor a frame record sol_i is written anywhere else in Export")


POS_M = {"r_OP": 3}   # index of the B_r_CP parameter in the subsystem signature (t, q, xi, B_r_CP)
VEL_M = {"v_P": 4}    # (t, q, u, xi, B_r_CP)


class _Offsets:
    """Which data attributes of the exporting object enter the body-fixed offset (B_r_CP argument) of the point-protocol
    calls that an expression evaluates (locals resolved through their assignments, self.<lambda> followed into its body)."""

    def __init__(self, view, fn, sn):
        self.view, self.fn, self.sn = view, fn, sn
        self.local = {}
        for n in walk_no_nested(fn):
            if isinstance(n, ast.Assign) and len(n.targets) == 1 and isinstance(n.targets[0], ast.Name):
                self.local.setdefault(n.targets[0].id, []).append(n.value)

    def attrs_read(self, expr, sn, seen):
        """data attributes read by expr, transitively through the object's own lambdas / methods"""
        out = set()
        for w in ast.walk(expr):
            if isinstance(w, ast.Attribute) and isinstance(w.value, ast.Name) and w.value.id == sn and isinstance(w.ctx, ast.Load):
                out.add(w.attr)
                key = ("attr", w.attr)
                if key not in seen and self.view.kind(w.attr) in ("lambda", "alias", "method"):
                    for (c, body, kind, sn2) in self.view.bodies(w.attr):
                        out |= self.attrs_read(body.body if isinstance(body, ast.Lambda) else body, sn2, seen | {key})
            elif isinstance(w, ast.Name) and sn == self.sn and w.id in self.local and w.id not in seen:
                for v in self.local[w.id]:
                    out |= self.attrs_read(v, sn, seen | {w.id})
        return out

    def offsets(self, expr, table, sn=None, seen=frozenset(), depth=0):
        """(set of attributes entering the offset argument, number of point calls found)"""
        sn = sn or self.sn
        out, ncalls = set(), 0
        if depth > 6:
            return out, ncalls
        for w in ast.walk(expr):
            if isinstance(w, ast.Name) and sn == self.sn and w.id in self.local and w.id not in seen:
                for v in self.local[w.id]:
                    o, c = self.offsets(v, table, sn, seen | {w.id}, depth + 1)
                    out |= o
                    ncalls += c
            if not (isinstance(w, ast.Call) and isinstance(w.func, ast.Attribute)):
                continue
            recv = dotted(w.func.value) or ""
            m = w.func.attr
            if recv == sn and m in table and self.view.kind(m) in ("lambda", "alias"):
                for (c, body, kind, sn2) in self.view.bodies(m):
                    o, cc = self.offsets(body.body if isinstance(body, ast.Lambda) else body, table, sn2, seen, depth + 1)
                    out |= o
                    ncalls += cc
            elif m in table and (recv.startswith(sn + ".") or recv == sn):
                ncalls += 1
                idx = table[m] - (0 if recv != sn else 0)
                arg = next((k.value for k in w.keywords if k.arg == "B_r_CP"), None)
                if arg is None and len(w.args) > idx:
                    arg = w.args[idx]
                if arg is not None:
                    out |= self.attrs_read(arg, sn, seen)
        return out, ncalls


ORIGIN_BASED = __import__("re").compile(r"^r_O[A-Z]\w*$")


def _origin_net(e, local, seen=frozenset(), depth=0):
    """net number of origin-based position vectors (r_O*, X.r_OP(...), X.r_OQ(...)) that e adds up, treating products with
    matrices / scalars as linear maps; None = not determinable.  0 means e is a RELATIVE vector."""
    if depth > 12:
        return None
    if isinstance(e, ast.Constant):
        return 0
    if isinstance(e, ast.Name):
        if e.id in local and len(local[e.id]) == 1 and e.id not in seen:
            return _origin_net(local[e.id][0], local, seen | {e.id}, depth + 1)
        return 1 if ORIGIN_BASED.match(e.id) else 0
    if isinstance(e, ast.Attribute):
        return 1 if ORIGIN_BASED.match(e.attr) else 0
    if isinstance(e, ast.Subscript):
        return _origin_net(e.value, local, seen, depth + 1)
    if isinstance(e, ast.UnaryOp) and isinstance(e.op, (ast.USub, ast.UAdd)):
        v = _origin_net(e.operand, local, seen, depth + 1)
        return None if v is None else (-v if isinstance(e.op, ast.USub) else v)
    if isinstance(e, ast.Call):
        last = (dotted(e.func) or "").split(".")[-1]
        if ORIGIN_BASED.match(last):
            return 1
        vals = [_origin_net(a, local, seen, depth + 1) for a in e.args]
        if all(v == 0 for v in vals):
            return 0
        if last in ("array", "asarray", "copy") and len(vals) == 1:
            return vals[0]
        return None
    if isinstance(e, ast.BinOp):
        a, b = _origin_net(e.left, local, seen, depth + 1), _origin_net(e.right, local, seen, depth + 1)
        if a is None or b is None:
            return None
        if isinstance(e.op, ast.Add):
            return a + b
        if isinstance(e.op, ast.Sub):
            return a - b
        if isinstance(e.op, (ast.Mult, ast.MatMult, ast.Div)):
            if a == 0:
                return b if not isinstance(e.op, ast.Div) else (0 if b == 0 else None)
            if b == 0:
                return a
            return None
    return None


def r10_omega_basis(ctx):
    """Every contribution writes its angular velocity `Omega` in the INERTIAL basis (A_IB @ B_Omega; the arrow is drawn in world coordinates next to ex,
    ey, ez).  skew2ax(A_t @ A.T) is that vector, skew2ax(A.T @ A_t) is the body-fixed one (= B_Omega); they coincide exactly when the frame spins
    about a fixed axis, which is all the shipped examples do."""
    rep = ctx.rep
    model = ctx.model
    n = 0
    done = set()
    for ci in model.all_classes():
        if "export" not in ci.methods or ci.rel.startswith(("cardillo/visualization/", "cardillo/system.py")):
            continue
        fn = ci.methods["export"]
        C = f"{ci.rel}:{ci.qual}.export"
        if C in done:
            continue
        done.add(C)
        local = {}
        for x in walk_no_nested(fn):
            if isinstance(x, ast.Assign) and len(x.targets) == 1 and isinstance(x.targets[0], ast.Name):
                local[x.targets[0].id] = x.value
        vals = []
        for w in walk_no_nested(fn):
            if isinstance(w, ast.Call) and dotted(w.func) == "dict":
                for k in w.keywords:
                    if k.arg == "Omega":
                        vals += (k.value.elts if isinstance(k.value, (ast.List, ast.Tuple)) else [k.value])

        def is_T(e):
            return isinstance(e, ast.Attribute) and e.attr == "T"

        def is_rate(e):
            s_ = norm_src(e)
            return bool(__import__("re").search(r"_t(__)?\b|_t\(|_dot\b", s_)) and not is_T(e)

        def basis(e, depth=0):
            if depth > 4:
                return None
            if isinstance(e, ast.Name) and e.id in local:
                return basis(local[e.id], depth + 1)
            s_ = norm_src(e)
            if isinstance(e, ast.BinOp) and isinstance(e.op, ast.MatMult):
                l_, r_ = norm_src(e.left), norm_src(e.right)
                if "A_IB" in l_ and not is_T(e.left) and "B_Omega" in r_:
                    return "I"
                if is_T(e.left) and "A_IB" in l_:
                    return "B"
                return None
            if isinstance(e, ast.Call):
                last = (dotted(e.func) or "").split(".")[-1]
                if last == "Omega":
                    return "I"
                if last == "B_Omega":
                    return "B"
                if last == "skew2ax" and e.args:
                    a = e.args[0]
                    if isinstance(a, ast.Name) and a.id in local:
                        a = local[a.id]
                    if isinstance(a, ast.BinOp) and isinstance(a.op, ast.MatMult):
                        L, R = a.left, a.right
                        Ls = local.get(L.id, L) if isinstance(L, ast.Name) else L
                        Rs = local.get(R.id, R) if isinstance(R, ast.Name) else R
                        if is_T(L) and (is_rate(R) or is_rate(Rs)):
                            return "B"
                        if is_T(R) and (is_rate(L) or is_rate(Ls)):
                            return "I"
                return None
            return None
        for v in vals:
            n += 1
            b = basis(v)
            if b == "I":
                rep.ok("C29.R10", C, f"Omega = `{norm_src(v)[:60]}`: inertial basis")
            elif b == "B":
                rep.bad("C29.R10", C, v, f"the exported angular velocity `{norm_src(v)[:70]}` is the BODY-fixed vector (A^T A_t / B_Omega), every other contribution - and the drawn basis ex, ey, ez - "
                        "uses the inertial one (A_IB @ B_Omega = skew2ax(A_t A^T)): the written Omega differs from the simulated angular velocity whenever the rotation does not leave its own "
                        "axis fixed (precession, tilt)", f"{ci.rel}:{v.lineno}")
            else:
                rep.ok("C29.R10", C, f"Omega = `{norm_src(v)[:60]}`: basis not determinable (no verdict)", verdict="unknown", trivial=True)
    if n < 3:
        raise AnalysisError("C29.R10: fewer than 3 exported angular velocities found")


def r9_unique_names(ctx):
    """One collection and one family of .vtu files per export: the name handed out by the uniqueness helper is new with respect to what the helper
    TESTS.  If the test is the file system (`<name>.pvd exists`) nothing has to be recorded; if it is a registry held by the exporter, the name
    that is RETURNED is the one that must be registered - registering the requested name lets the second generated name (`body1`) be handed
    out again, and the third export under one name overwrites the second one's collection and data files."""
    rep = ctx.rep
    mod = ctx.repo.module(VTK)
    fns = [(q, f) for q, f in mod.defs().items() if isinstance(f, ast.FunctionDef) and "unique_file_name" in f.name]
    if not fns:
        raise AnalysisError(f"{VTK}: the file-name uniqueness helper vanished")
    for q, fn in fns:
        C = f"{VTK}:{q}"
        rets = [r.value for r in ast.walk(fn) if isinstance(r, ast.Return) and r.value is not None]
        loops = [w for w in ast.walk(fn) if isinstance(w, ast.While)]
        if not rets or not loops:
            rep.bad("C29.R9", C, fn.name, "the helper no longer searches for an unused name in a loop", f"{VTK}:{fn.lineno}")
            continue
        ret = norm_src(rets[-1])
        test = loops[0].test
        tested = {w.id for w in ast.walk(test) if isinstance(w, ast.Name)}
        if ret not in tested:
            rep.bad("C29.R9", C, test, f"the loop tests `{norm_src(test)[:60]}` but `{ret}` is returned: the returned name is not the one that was found to be unused", f"{VTK}:{loops[0].lineno}")
            continue
        members = [c for c in ast.walk(test) if isinstance(c, ast.Compare) and any(isinstance(o, (ast.In, ast.NotIn)) for o in c.ops)]
        if not members:
            rep.ok("C29.R9", C, f"uniqueness is tested on the file system (`{norm_src(test)[:60]}`) for the returned name `{ret}`")
            continue
        reg = norm_src(members[0].comparators[0])
        adds = [w for w in ast.walk(fn) if isinstance(w, ast.Call) and isinstance(w.func, ast.Attribute) and w.func.attr in ("add", "append") and norm_src(w.func.value) == reg]
        if not adds:
            rep.bad("C29.R9", C, test, f"names are tested against the registry `{reg}` but the helper never registers the name it hands out", f"{VTK}:{loops[0].lineno}")
        elif all(a.args and norm_src(a.args[0]) == ret for a in adds):
            rep.ok("C29.R9", C, f"the returned name `{ret}` is registered in `{reg}`")
        else:
            a = adds[0]
            rep.bad("C29.R9", C, a, f"`{norm_src(a)}` registers `{norm_src(a.args[0]) if a.args else '?'}` but `{ret}` is handed out: a generated name is never registered, so it is handed out "
                    "again and the next export under the same requested name overwrites that collection and its data files", f"{VTK}:{a.lineno}")


def r8(ctx):
    """The B_r_CP argument of the point protocol (r_OP, v_P, ... of a body or frame) is a lever arm measured from THAT body's reference
    point.  An origin-based position handed over as lever arm (r_OC instead of r_OC - r_OQ) gives the velocity v_Q + omega x r_OC of a point
    that is displaced by the frame's own position: wrong as soon as the frame is away from the origin and rotates."""
    rep = ctx.rep
    model = ctx.model
    n = 0
    done = set()
    for ci in model.all_classes():
        if "export" not in ci.methods or ci.rel.startswith(("cardillo/visualization/", "cardillo/system.py")):
            continue
        fn = ci.methods["export"]
        C = f"{ci.rel}:{ci.qual}.export"
        if C in done:
            continue
        done.add(C)
        local = {}
        for x in walk_no_nested(fn):
            if isinstance(x, ast.Assign) and len(x.targets) == 1 and isinstance(x.targets[0], ast.Name):
                local.setdefault(x.targets[0].id, []).append(x.value)
        for w in walk_no_nested(fn):
            if not (isinstance(w, ast.Call) and isinstance(w.func, ast.Attribute)):
                continue
            m = w.func.attr
            arg = next((k.value for k in w.keywords if k.arg == "B_r_CP"), None)
            table = {**POS_M, **VEL_M}
            if arg is None and m in table and len(w.args) > table[m]:
                arg = w.args[table[m]]
            if arg is None:
                continue
            n += 1
            net = _origin_net(arg, local)
            if net is None:
                rep.ok("C29.R8", C, f"{norm_src(w.func)}(..., B_r_CP={norm_src(arg)[:50]}): composition not determinable (no verdict)", verdict="unknown", trivial=True)
            elif net == 0:
                rep.ok("C29.R8", C, f"{norm_src(w.func)}(..., B_r_CP={norm_src(arg)[:50]}): lever arm is a relative vector")
            else:
                rep.bad("C29.R8", C, arg, f"the lever arm `{norm_src(arg)}` handed to {norm_src(w.func)} contains {net:+d} origin-based position vector(s) that no other position cancels: "
                        "it is measured from the origin O instead of from the body's / frame's own reference point, so the written velocity is that of a point displaced "
                        "by the frame's position (wrong for a frame away from the origin that rotates)", f"{ci.rel}:{arg.lineno}")
    if n < 2:
        raise AnalysisError("C29.R8: fewer than 2 lever-arm arguments found in export methods")


def r6(ctx):
    rep = ctx.rep
    model = ctx.model
    n = 0
    done = set()
    for ci in model.all_classes():
        if "export" not in ci.methods or ci.rel.startswith(("cardillo/visualization/", "cardillo/system.py")):
            continue
        fn = ci.methods["export"]
        C = f"{ci.rel}:{ci.qual}.export"
        if C in done or len(fn.args.args) < 2:
            continue
        done.add(C)
        sn = fn.args.args[0].arg
        pts = [x.value for x in walk_no_nested(fn) if isinstance(x, ast.Assign) and norm_src(x.targets[0]) == "points" and isinstance(x.value, ast.List)]
        if len(pts) != 1:
            continue
        pts = pts[0].elts
        vel_lists = []
        for w in walk_no_nested(fn):
            if isinstance(w, ast.Call) and dotted(w.func) == "dict":
                for k in w.keywords:
                    if k.arg and k.arg.startswith("v") and isinstance(k.value, ast.List) and len(k.value.elts) == len(pts):
                        vel_lists.append((k.arg, k.value.elts))
        if not vel_lists:
            continue
        view = protocol.ClassView(ctx, ci, model.variants(ci)[0])
        off = _Offsets(view, fn, sn)
        for key, vels in vel_lists:
            for k, (pe, ve) in enumerate(zip(pts, vels)):
                op, cp = off.offsets(pe, POS_M)
                ov, cv = off.offsets(ve, VEL_M)
                if cp == 0 or cv == 0:
                    rep.ok("C29.R6", C, f"points[{k}] / {key}[{k}]: not both evaluated through the subsystem point protocol (nothing to compare)", trivial=True)
                    continue
                n += 1
                miss = sorted(op - ov)
                if miss:
                    rep.bad("C29.R6", C, ve, f"points[{k}] is evaluated with the body-fixed offset attribute(s) {miss} but the velocity {key}[{k}] written for it is not: "
                            "on a rotating body the exported vector is the velocity of another material point", f"{ci.rel}:{ve.lineno}")
                else:
                    rep.ok("C29.R6", C, f"points[{k}] and {key}[{k}] use the same offset attributes {sorted(op)}")
    if n < 1:
        raise AnalysisError("C29.R6: no exported point/velocity pair evaluated through the point protocol was found")


RB = "cardillo/discrete/rigid_body.py"
RE = "cardillo/rods/_base_export.py"
MUTANTS = [
    dict(id="c29-m1", canary=True, what="rod export hands the global q to eval_stresses (original defect)", file=RE,
         old="                        t, q[self.qDOF], la_c, la_g, xis[j], el=None", new="                        t, q, la_c, la_g, xis[j], el=None", expect="C29.R2"),
    dict(id="c29-m1b", what="rod export hands the global la_c to eval_stresses", file=RE,
         old="                la_c = sol_i.la_c[self.la_cDOF] if hasattr(self, \"la_cDOF\") else None", new="                la_c = sol_i.la_c", expect="C29.R2"),
    dict(id="c29-m2", canary=True, what="RigidBody.export indexes velocities with qDOF", file=RB,
         old="        vel = self.v_P(sol_i.t, sol_i.q[self.qDOF], sol_i.u[self.uDOF])", new="        vel = self.v_P(sol_i.t, sol_i.q[self.qDOF], sol_i.u[self.qDOF])", expect="C29.R2"),
    dict(id="c29-m3", what="DataSet registered only for even frames", file=VTK,
         old="            self.__write_time_step_and_name(sol_i.t, file_i)\n", new="            if i % 2 == 0:\n                self.__write_time_step_and_name(sol_i.t, file_i)\n", expect="C29.R1"),
    dict(id="c29-m4", what="file name independent of the frame index", file=VTK,
         old="            file_i = self.path / f\"{file_name}_{i}.vtu\"", new="            file_i = self.path / f\"{file_name}.vtu\"", expect="C29.R1"),
    dict(id="c29-m5", what="pvd written inside the loop", file=VTK,
         old="            writer.Write()\n\n        self._write_pvd_file(self.path / f\"{file_name}.pvd\")", new="            writer.Write()\n\n            self._write_pvd_file(self.path / f\"{file_name}.pvd\")", expect="C29.R1"),
    dict(id="c29-m6", what="time stamp taken from the subsampled index instead of sol_i.t", file=VTK,
         old="            self.__write_time_step_and_name(sol_i.t, file_i)", new="            self.__write_time_step_and_name(float(i), file_i)", expect="C29.R1"),
    dict(id="c29-m7", what="Sphere2Plane.export evaluates the plane at t = 0", file="cardillo/contacts/sphere2plane.py",
         old="        r_OP = self.r_OP(sol_i.t, sol_i.q[self.qDOF])\n        n = self.n(sol_i.t)", new="        r_OP = self.r_OP(0.0, sol_i.q[self.qDOF])\n        n = self.n(sol_i.t)", expect="C29.R3"),
    dict(id="c29-m8", what="time field subsampled with an offset", file=VTK,
         old="                new_solution[key] = solution.__getattribute__(key)[::frac]", new="                new_solution[key] = solution.__getattribute__(key)[1::frac]", expect="C29.R4"),
]
MUTANTS = [m for m in MUTANTS if not m.get("optional")]
MUTANTS += [
    dict(id="c29-r5-seed", canary=True, what="[seeded by sub-agent] __prepare_data shifts the exported time vector to start at zero", file=VTK,
         old="        self.solution = Solution(\n            system=solution.system,", new="        new_solution[\"t\"] = new_solution[\"t\"] - new_solution[\"t\"][0]\n        self.solution = Solution(\n            system=solution.system,", expect="C29.R5"),
    dict(id="c29-r5-2", what="export_contr rescales the frame time before writing", file=VTK,
         old="            self.__write_time_step_and_name(sol_i.t, file_i)\n", new="            sol_i.t = sol_i.t * 1.0e3\n            self.__write_time_step_and_name(sol_i.t, file_i)\n", expect="C29.R5"),
    dict(id="c29-r6-orig", canary=True, what="Sphere2Plane.export: contact point velocity without the sphere centre offset (original defect)", file="cardillo/contacts/sphere2plane.py",
         old="                    self.B_r_CP + A_IB1.T @ r_PC1,", new="                    A_IB1.T @ r_PC1,", expect="C29.R6"),
]
MUTANTS += [
    dict(id="c29-r7-seed", canary=True, what="[seeded by sub-agent] RigidBody.export builds the rotation matrix without normalising the stored quaternion", file=RB,
         old="        ex, ey, ez = self.A_IB(sol_i.t, sol_i.q[self.qDOF]).T", new="        ex, ey, ez = Exp_SO3_quat(sol_i.q[self.qDOF][3:], normalize=False).T", expect="C29.R7"),
]
S2P = "cardillo/contacts/sphere2plane.py"
MUTANTS += [
    dict(id="c29-r8-seed", canary=True, what="[seeded by sub-agent] Sphere2Plane.export: plane-side contact velocity with the origin-based contact position as lever arm", file=S2P,
         old="                self.frame.v_P(sol_i.t, B_r_CP=A_IB2.T @ r_QC2),\n", new="                self.frame.v_P(sol_i.t, B_r_CP=A_IB2.T @ (r_OP - n * (g_N + self.r))),\n", expect="C29.R8"),
]
FRM = "cardillo/discrete/frame.py"
MUTANTS += [
    dict(id="c29-r10-seed", canary=True, what="[seeded by sub-agent] Frame.export writes skew2ax(A^T A_t), the body-fixed angular velocity", file=FRM,
         old="            Omega=[self.A_IB(sol_i.t) @ self.B_Omega(sol_i.t)],\n", new="            Omega=[skew2ax(self.A_IB__(sol_i.t).T @ self.A_IB_t__(sol_i.t))],\n", expect="C29.R10"),
]
MUTANTS += [
    dict(id="c29-r9-seed", canary=True, what="[seeded by sub-agent] unique-name helper keeps a registry but records the requested name instead of the issued one", file=VTK,
         edits=[(VTK, "        while (self.path / f\"{file_name_}.pvd\").exists():\n", "        if not hasattr(self, \"_names\"):\n            self._names = set()\n        while file_name_ in self._names:\n"),
                (VTK, "            i += 1\n        return file_name_\n", "            i += 1\n        self._names.add(file_name)\n        return file_name_\n")], expect="C29.R9"),
]
NEUTRAL = [
    dict(id="c29-n-r9", canary=True, what="unique-name helper keeps a registry of the issued names", file=VTK,
         edits=[(VTK, "        while (self.path / f\"{file_name_}.pvd\").exists():\n", "        if not hasattr(self, \"_names\"):\n            self._names = set()\n        while file_name_ in self._names:\n"),
                (VTK, "            i += 1\n        return file_name_\n", "            i += 1\n        self._names.add(file_name_)\n        return file_name_\n")]),
    dict(id="c29-n-r8", canary=True, what="Sphere2Plane.export: plane-side lever arm written as a difference of two positions", file=S2P,
         old="                self.frame.v_P(sol_i.t, B_r_CP=A_IB2.T @ r_QC2),\n", new="                self.frame.v_P(sol_i.t, B_r_CP=A_IB2.T @ (r_OP - n * (g_N + self.r) - self.r_OQ(sol_i.t))),\n"),
    dict(id="c29-n1", canary=True, what="__prepare_data uses getattr instead of __getattribute__", file=VTK,
         old="                new_solution[key] = solution.__getattribute__(key)[::frac]", new="                new_solution[key] = getattr(solution, key)[::frac]"),
    dict(id="c29-n2", what="Sphere2Plane.export: offset of the contact point hoisted into a local", file="cardillo/contacts/sphere2plane.py",
         edits=[("cardillo/contacts/sphere2plane.py", "        A_IB2 = self.frame.A_IB(sol_i.t)\n        point_data = dict(", "        A_IB2 = self.frame.A_IB(sol_i.t)\n        B_r_CC1 = self.B_r_CP + A_IB1.T @ r_PC1\n        point_data = dict("),
                ("cardillo/contacts/sphere2plane.py", "                    self.B_r_CP + A_IB1.T @ r_PC1,", "                    B_r_CC1,")]),
]

MUTANTS += [
    dict(id="c29-r11-seed", canary=True, what="[seeded by sub-agent] Export.__add_key 'simplified' to `data_write[key] += value` (adds ndarray data element-wise)", file='cardillo/visualization/vtk_export.py',
         old='    def __add_key(self, data_read, data_write):\n        for key in data_read.keys():\n            if not key in data_write.keys():\n                data_write[key] = data_read[key]\n            else:\n                if isinstance(data_read[key], list):\n                    data_write[key].extend(data_read[key])\n                else:\n                    data_write[key] = np.vstack((data_write[key], data_read[key]))\n\n', new='    def __add_key(self, data_read, data_write):\n        for key, value in data_read.items():\n            if key in data_write:\n                data_write[key] += value\n            else:\n                data_write[key] = value\n\n', expect="C29.R11"),
]
NEUTRAL += [
    dict(id="c29-n-r11", canary=True, what="Export.__add_key rewritten over items() with the same list / array distinction", file='cardillo/visualization/vtk_export.py', old='    def __add_key(self, data_read, data_write):\n        for key in data_read.keys():\n            if not key in data_write.keys():\n                data_write[key] = data_read[key]\n            else:\n                if isinstance(data_read[key], list):\n                    data_write[key].extend(data_read[key])\n                else:\n                    data_write[key] = np.vstack((data_write[key], data_read[key]))\n\n', new='    def __add_key(self, data_read, data_write):\n        for key, value in data_read.items():\n            if key not in data_write:\n                data_write[key] = value\n            elif isinstance(value, list):\n                data_write[key].extend(value)\n            else:\n                data_write[key] = np.vstack((data_write[key], value))\n\n'),
]

MUTANTS += [
    dict(id="c29-r12-seed", canary=True, what="[seeded by sub-agent] Meshed.export buffers the world-space vertices and recomputes them only when q changes (a meshed Frame has nq = 0: frozen at the first frame)", file='cardillo/discrete/meshed.py',
         old='                r_OC = self.r_OP(\n                    sol_i.t, sol_i.q[self.qDOF]\n                )  # TODO: Idea: slicing could be done on global level in Export class. Moreover, solution class should be able to return the slice, e.g., sol_i.get_q_of_body(name).\n                A_IB = self.A_IB(sol_i.t, sol_i.q[self.qDOF])\n                points = (r_OC[:, None] + A_IB @ self.B_r_CQi_T).T\n\n                cells = [(VTK_TRIANGLE, face) for face in self.B_visual_mesh.faces]\n\n', new='                q = sol_i.q[self.qDOF]\n                key = q\n                if getattr(self, "_export_key", None) is None or not np.array_equal(key, self._export_key):\n                    r_OC = self.r_OP(sol_i.t, q)\n                    A_IB = self.A_IB(sol_i.t, q)\n                    self._export_points = (r_OC[:, None] + A_IB @ self.B_r_CQi_T).T\n                    self._export_key = key\n                points = self._export_points\n\n                cells = [(VTK_TRIANGLE, face) for face in self.B_visual_mesh.faces]\n\n', expect="C29.R12"),
]
NEUTRAL += [
    dict(id="c29-n-r12", canary=True, what="Meshed.export buffers the vertices keyed by (t, q)", file='cardillo/discrete/meshed.py',
         old='                r_OC = self.r_OP(\n                    sol_i.t, sol_i.q[self.qDOF]\n                )  # TODO: Idea: slicing could be done on global level in Export class. Moreover, solution class should be able to return the slice, e.g., sol_i.get_q_of_body(name).\n                A_IB = self.A_IB(sol_i.t, sol_i.q[self.qDOF])\n                points = (r_OC[:, None] + A_IB @ self.B_r_CQi_T).T\n\n                cells = [(VTK_TRIANGLE, face) for face in self.B_visual_mesh.faces]\n\n', new='                q = sol_i.q[self.qDOF]\n                key = np.concatenate(([sol_i.t], q))\n                if getattr(self, "_export_key", None) is None or not np.array_equal(key, self._export_key):\n                    r_OC = self.r_OP(sol_i.t, q)\n                    A_IB = self.A_IB(sol_i.t, q)\n                    self._export_points = (r_OC[:, None] + A_IB @ self.B_r_CQi_T).T\n                    self._export_key = key\n                points = self._export_points\n\n                cells = [(VTK_TRIANGLE, face) for face in self.B_visual_mesh.faces]\n\n'),
]

MUTANTS += [
    dict(id="c29-r13-f56", canary=True, what="fix F56 reverted: the surface normals of the volume export are evaluated in element `i` = index of the vtk cell", file='cardillo/rods/_base_export.py',
         old='                        xi = (i + layer / p_zeta) / ncells\n                        # the vtk cells need not coincide with the elements; the\n                        # last layer of a cell belongs to the element ending there\n                        el = self.element_number(xi)\n                        if (\n                            layer == p_zeta\n                            and el > 0\n                            and np.isclose(self.element_interval(el)[0], xi)\n                        ):\n                            el -= 1\n', new='                        el = i\n                        xi = (i + layer / p_zeta) / ncells\n', expect="C29.R13"),
]

MUTANTS += [
    dict(id="c29-r14-seed", canary=True, what="[seeded by sub-agent] the .pvd timestep attribute is written with the general format {t:g} (six significant digits)", file='cardillo/visualization/vtk_export.py',
         old='        dataset.setAttribute("timestep", f"{t:0.6f}")\n', new='        dataset.setAttribute("timestep", f"{t:g}")\n', expect="C29.R14"),
]

MUTANTS += [
    dict(id="c29-r15-seed", canary=True, every=True, what="[seeded by sub-agent] RectangularCrossSection.vtk_compute_points pairs the height with d2 and the width with d3", file='cardillo/rods/_cross_section.py',
         old='            r_PP2 = d2 * self.width / 2 + d3 * self.height / 2\n            r_PP1 = d2 * self.width / 2 - d3 * self.height / 2\n', new='            r_PP2 = d2 * self.height / 2 + d3 * self.width / 2\n            r_PP1 = d2 * self.height / 2 - d3 * self.width / 2\n', expect="C29.R15"),
]
