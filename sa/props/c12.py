"""C12  Rod material laws are hyperelastic with exact tangents.

Structural clauses decided (cardillo/rods/_material_models.py), by scaling-degree inference (engine K6):
 R1 strain homogeneity     under the joint strain scaling (B_Gamma, B_Gamma0, B_Kappa, B_Kappa0) -> s(...) every law is termwise
                           homogeneous: potential of degree 2, B_n and B_m of degree 1, the tangents of degree 0 (Euler's relation
                           for the gradient/Hessian of a degree-2 function) -- a tangent that adds a degree-0 and a degree -1 term is
                           not the derivative of a degree-1 force
 R2 stiffness homogeneity  under (Ei, Fi) -> s(Ei, Fi): potential, B_n, B_m and tangents of degree 1, compliance matrices of degree
                           -1, complementary potential of degree -1 (in the stiffness) and 2 (in the stresses)
 R3 tangent coverage       each tangent B_x_B_y reads the strain arguments its force depends on (if B_n depends on B_Gamma
                           non-linearly, B_n_B_Gamma must read B_Gamma); a force that depends on a strain has a non-zero tangent
 R4 protocol               a law that provides one of (complementary_potential, C_n_inv, C_m_inv) provides all of them
"""
from __future__ import annotations

import ast
from fractions import Fraction

from ..core import AnalysisError, dotted, norm_src
from ..degrees import Interp, Z, TOP, is_ground, fmt

EXPLANATION = ("Abstract interpretation of every method of Simo1986 and Harsch2021 over the degree domain (one rational number per "
               "expression) for the strain-scaling and the stiffness-scaling groups, with attribute degrees derived from __init__; "
               "parameter-liveness comparison between forces and tangents.")
NOT_DECIDED = "that forces are the gradient of the energy and tangents the derivatives of the forces (coefficients and signs are value facts)."
ASSUMPTIONS = ["the laws are meant to be homogeneous under joint strain scaling and under stiffness scaling (true of both published models)"]
BLIND_SPOTS = ["a wrong numerical factor (e.g. 0.5 vs 1) or sign in a term of the right degree"]
MM = "cardillo/rods/_material_models.py"
ARGS = ["B_Gamma", "B_Gamma0", "B_Kappa", "B_Kappa0"]
F = Fraction


def class_functions(cls_node):
    return {s.name: s for s in cls_node.body if isinstance(s, ast.FunctionDef)}


def init_attr_degs(interp, fns, seed):
    """run __init__ with given parameter degrees to obtain self.X degrees."""
    interp.attr.update(seed)
    init = fns.get("__init__")
    if init is None:
        return
    params = {a.arg: TOP for a in init.args.args[1:]}
    for k, v in seed.items():
        nm = k.split(".")[-1]
        if nm in params:
            params[nm] = v
    interp.run("__init__", params)


def dual_pairing(ctx):
    """A law that defines its own `potential` (or `B_n` / `B_m`) but takes `complementary_potential` / `C_n_inv` / `C_m_inv` from a base class that
    pairs them with the base's own potential hands out the dual of ANOTHER energy (the mixed rod formulations read exactly these)."""
    from .. import protocol
    rep = ctx.rep
    n = 0
    for ci in ctx.model.all_classes():
        if ci.rel != MM:
            continue
        view = protocol.ClassView(ctx, ci)
        cP, fP = view.method("potential")
        if fP is None:
            continue
        n += 1
        C = f"{MM}:{ci.qual}"
        leaks = []
        for d in ("complementary_potential", "C_n_inv", "C_m_inv"):
            owners = [c for c in view.mro if d in c.methods or d in c.stores or d in c.class_attrs]
            if not owners:
                continue
            o = owners[0]
            if o is not cP and o is not ci and "potential" in o.methods and cP is not o:
                leaks.append((d, o.qual))
        if leaks:
            rep.bad("C12.R6", C, fP.name, f"`{ci.qual}` defines its own `potential` (in {cP.qual}) but inherits {[d for d, _ in leaks]} from {leaks[0][1]}, which pairs them with ITS potential: "
                    "the complementary energy / compliances handed out are the Legendre duals of another energy", f"{MM}:{fP.lineno}")
        else:
            rep.ok("C12.R6", C, "complementary side defined together with the potential (or not provided)")
    if n < 2:
        raise AnalysisError("C12.R6: fewer than 2 material laws found")


STRAINS = {"B_Gamma", "B_Kappa", "B_Gamma0", "B_Kappa0"}


def vanishing_order_rule(ctx):
    """The forces are the gradient of the energy.  The energy of both laws vanishes to SECOND order at the reference strains (every term carries
    two factors that are zero there: dG, dK, lambda - lambda0, 1 - lambda0 / lambda), and differentiation lowers that order by at most one, so
    every term of B_n and B_m must still carry one such factor: the forces vanish at B_Gamma = B_Gamma0, B_Kappa = B_Kappa0 for ANY
    reference strain, sheared ones included.  Abstract domain: minimal number of factors that vanish at the reference (sum: min, product:
    sum, power k: times k; helper methods of the law are inlined).  `S(B_Gamma, B_Gamma0) @ B_Gamma` with S = C_n + E0 (1 - l0 / l) I has
    order 0: the term C_n @ B_Gamma0 of C_n @ (B_Gamma - B_Gamma0) was dropped ("C_n has a zero axial entry"), wrong for every reference
    with a shear component."""
    from .. import protocol
    rep = ctx.rep
    PAIRS = {"B_Gamma": "B_Gamma0", "B_Kappa": "B_Kappa0"}
    n = 0
    for ci in ctx.model.all_classes():
        if ci.rel != MM:
            continue
        view = protocol.ClassView(ctx, ci)
        cP, fP = view.method("potential")
        if fP is None or all(isinstance(b, ast.Raise) or (isinstance(b, ast.Expr) and isinstance(b.value, ast.Constant)) for b in fP.body):
            continue
        C = f"{MM}:{ci.qual}"

        def order_of(fn, depth=0):
            loc = {}
            for x in ast.walk(fn):
                if isinstance(x, ast.Assign) and len(x.targets) == 1 and isinstance(x.targets[0], ast.Name):
                    loc[x.targets[0].id] = x.value

            def canon(e, seen=frozenset()):
                """source text with locals inlined and the reference arguments renamed to the current ones"""
                if isinstance(e, ast.Name):
                    if e.id in loc and e.id not in seen:
                        return canon(loc[e.id], seen | {e.id})
                    for k, v in PAIRS.items():
                        if e.id == v:
                            return k
                    return e.id
                if isinstance(e, ast.Call):
                    return f"{norm_src(e.func)}({', '.join(canon(a, seen) for a in e.args)})"
                if isinstance(e, ast.BinOp):
                    return f"({canon(e.left, seen)} {type(e.op).__name__} {canon(e.right, seen)})"
                return norm_src(e)

            def raw(e, seen=frozenset()):
                if isinstance(e, ast.Name) and e.id in loc and e.id not in seen:
                    return raw(loc[e.id], seen | {e.id})
                if isinstance(e, ast.Call):
                    return f"{norm_src(e.func)}({', '.join(raw(a, seen) for a in e.args)})"
                return norm_src(e)

            def ref_eq(a, b):
                return canon(a) == canon(b) and raw(a) != raw(b)

            def od(e, seen=frozenset()):
                if isinstance(e, ast.Constant):
                    return 0
                if isinstance(e, ast.Name):
                    if e.id in loc and e.id not in seen:
                        return od(loc[e.id], seen | {e.id})
                    return 0
                if isinstance(e, ast.UnaryOp):
                    return od(e.operand, seen)
                if isinstance(e, ast.BinOp):
                    if isinstance(e.op, ast.Sub):
                        if ref_eq(e.left, e.right):
                            return 1
                        if isinstance(e.left, ast.Constant) and e.left.value == 1 and isinstance(e.right, ast.BinOp) and isinstance(e.right.op, ast.Div) \
                                and ref_eq(e.right.left, e.right.right):
                            return 1
                        return min(od(e.left, seen), od(e.right, seen))
                    if isinstance(e.op, ast.Add):
                        return min(od(e.left, seen), od(e.right, seen))
                    if isinstance(e.op, (ast.Mult, ast.MatMult)):
                        return od(e.left, seen) + od(e.right, seen)
                    if isinstance(e.op, ast.Div):
                        return od(e.left, seen)
                    if isinstance(e.op, ast.Pow):
                        k = e.right.value if isinstance(e.right, ast.Constant) and isinstance(e.right.value, int) else 1
                        return od(e.left, seen) * k
                    return 0
                if isinstance(e, ast.Call):
                    f = norm_src(e.func)
                    if f.startswith("self.") and depth < 3:
                        c2, f2 = view.method(f[5:])
                        if f2 is not None and [a.arg for a in f2.args.args[1:]] == [norm_src(a) for a in e.args]:
                            return order_of(f2, depth + 1)
                        return 0
                    if f.split(".")[-1] in ("outer", "dot", "einsum", "cross3", "cross"):
                        return sum(od(a, seen) for a in e.args if not (isinstance(a, ast.Constant) and isinstance(a.value, str)))
                    return 0
                if isinstance(e, ast.Subscript):
                    return od(e.value, seen)
                if isinstance(e, ast.Attribute) and e.attr == "T":
                    return od(e.value, seen)
                return 0
            rets = [r.value for r in ast.walk(fn) if isinstance(r, ast.Return) and r.value is not None]
            return min((od(r) for r in rets), default=0)
        oW = order_of(fP)
        if oW < 2:
            for name in ("B_n", "B_m"):
                n += 1
                rep.ok("C12.R8", C, f"{name}: potential vanishes to order {oW} at the reference strains in the form the analysis reads (< 2: no obligation)", verdict="unknown", trivial=True)
            continue
        for name in ("B_n", "B_m"):
            c2, f2 = view.method(name)
            if f2 is None:
                continue
            n += 1
            o = order_of(f2)
            if o >= oW - 1:
                rep.ok("C12.R8", C, f"{name}: every term keeps a factor that vanishes at the reference strains (order {o}; energy: order {oW})")
            else:
                rep.bad("C12.R8", C, f2.name, f"the energy of `{ci.qual}` vanishes to order {oW} at B_Gamma = B_Gamma0, B_Kappa = B_Kappa0, so its gradient vanishes there; `{name}` has a term "
                        f"without any factor that is zero at the reference (order {o}): it is not the gradient of the energy for a general (e.g. sheared) reference strain", f"{MM}:{f2.lineno}")
    if n < 4:
        raise AnalysisError(f"C12.R8: only {n} force routines with an energy of order 2 found")


def clapeyron_rule(ctx):
    """W = 1/2 (n . dGamma + m . dKappa) ("half the work of the forces", Clapeyron) is the potential of n, m only for a LINEAR law.  An energy
    that is computed from the law's own forces is therefore admissible only if those forces are linear in the strains: no norm / sqrt / power /
    division of a strain-dependent quantity in B_n, B_m.  (For Harsch2021's E0 (1 - l0/l) Gamma the Clapeyron value differs from
    1/2 E0 (l - l0)^2 as soon as Gamma is stretched AND sheared; pure stretch hides it.)"""
    from .. import protocol
    rep = ctx.rep
    n = 0
    for ci in ctx.model.all_classes():
        if ci.rel != MM:
            continue
        view = protocol.ClassView(ctx, ci)
        cP, fP = view.method("potential")
        cN, fN = view.method("B_n")
        cM, fM = view.method("B_m")
        if fP is None or fN is None or fM is None:
            continue
        if all(isinstance(b, ast.Raise) or (isinstance(b, ast.Expr) and isinstance(b.value, ast.Constant)) for b in fN.body):
            continue        # abstract law
        n += 1
        C = f"{MM}:{ci.qual}"
        via_forces = [w for w in ast.walk(fP) if isinstance(w, ast.Call) and norm_src(w.func) in ("self.B_n", "self.B_m")]
        if not via_forces:
            rep.ok("C12.R7", C, f"potential (defined in {cP.qual}) is written out on its own, not through the forces")
            continue

        def nonlinear(fn):
            loc = {}
            for x in ast.walk(fn):
                if isinstance(x, ast.Assign) and len(x.targets) == 1 and isinstance(x.targets[0], ast.Name):
                    loc[x.targets[0].id] = x.value
            def dep(e, seen=frozenset()):
                for w in ast.walk(e):
                    if isinstance(w, ast.Name):
                        if w.id in STRAINS:
                            return True
                        if w.id in loc and w.id not in seen and dep(loc[w.id], seen | {w.id}):
                            return True
                return False
            for w in ast.walk(fn):
                if isinstance(w, ast.Call) and (dotted(w.func) or "").split(".")[-1] in ("norm", "sqrt", "exp", "log", "sin", "cos") and any(dep(a) for a in w.args):
                    return w
                if isinstance(w, ast.BinOp) and isinstance(w.op, ast.Pow) and dep(w.left):
                    return w
                if isinstance(w, ast.BinOp) and isinstance(w.op, ast.Div) and dep(w.right):
                    return w
                if isinstance(w, ast.BinOp) and isinstance(w.op, (ast.Mult, ast.MatMult)) and dep(w.left) and dep(w.right):
                    return w
            return None
        bad = nonlinear(fN) or nonlinear(fM)
        if bad is None:
            rep.ok("C12.R7", C, "potential is half the work of the forces and the forces are linear in the strains (Clapeyron applies)")
        else:
            rep.bad("C12.R7", C, via_forces[0], f"`{ci.qual}` takes its energy as half the work of its forces (`{norm_src(via_forces[0])[:40]}` in {cP.qual}.potential), but its force law is not "
                    f"linear in the strains (`{norm_src(bad)[:50]}`): Clapeyron's formula is not the potential of a nonlinear law, so B_n is not the gradient of the reported energy "
                    "(differs as soon as the strain is stretched and sheared)", f"{MM}:{via_forces[0].lineno}")
    if n < 2:
        raise AnalysisError("C12.R7: fewer than 2 concrete material laws found")


def exact_compliances(ctx, rule="C12.R11"):
    """`C_n_inv @ C_n = I` for every positive definite stiffness.  np.linalg.pinv / lstsq discard singular values below rcond * largest one:
    exact for well-scaled data, silently ZERO for the soft block once the stiffnesses (E A ~ 1e-9 N, E I ~ 1e-28 N m^2 for a filament in SI
    units; joined in one matrix the cut-off is relative to the largest of all six) span more than ~15 decades.  Provenance of every store to
    an attribute named *_inv in the laws: the calls it goes through."""
    rep = ctx.rep
    mod = ctx.repo.module(MM)
    n = 0
    for cls in [c for c in mod.tree.body if isinstance(c, ast.ClassDef)]:
        for fn in [f for f in cls.body if isinstance(f, ast.FunctionDef)]:
            binds = {}
            for w in ast.walk(fn):
                if isinstance(w, ast.Assign) and len(w.targets) == 1 and isinstance(w.targets[0], ast.Name):
                    binds.setdefault(w.targets[0].id, []).append(w.value)
            for st in [w for w in ast.walk(fn) if isinstance(w, ast.Assign) and len(w.targets) == 1 and isinstance(w.targets[0], ast.Attribute)
                       and dotted(w.targets[0].value) == "self" and w.targets[0].attr.endswith("_inv")]:
                n += 1
                C = f"{MM}:{cls.name}.{fn.name}"
                calls, seen, work = [], set(), [st.value]
                while work:
                    e = work.pop()
                    for x in ast.walk(e):
                        if isinstance(x, ast.Call):
                            calls.append(x)
                        elif isinstance(x, ast.Name) and x.id in binds and x.id not in seen:
                            seen.add(x.id)
                            work += binds[x.id]
                names = [(dotted(c.func) or "").split(".")[-1] for c in calls]
                lossy = [c for c, nm in zip(calls, names) if nm in ("pinv", "lstsq", "pinvh")]
                base = st.targets[0].attr[:-4]
                exact = [c for c, nm in zip(calls, names) if nm in ("inv", "solve") and c.args and norm_src(c.args[0]) in (f"self.{base}", base)]
                if lossy:
                    rep.bad(rule, C, st, f"`{norm_src(st)[:70]}` goes through `{norm_src(lossy[0].func)}`, which drops singular values below a relative cut-off: for stiffnesses spanning more than "
                            f"~15 decades self.{st.targets[0].attr} @ self.{base} is not the identity (the soft block's compliance is silently zero) and the complementary energy is not the Legendre "
                            "dual of the strain energy", f"{MM}:{st.lineno}")
                elif exact:
                    rep.ok(rule, C, f"self.{st.targets[0].attr} = exact inverse of self.{base} (`{norm_src(exact[0])[:40]}`)")
                else:
                    rep.ok(rule, C, f"`{norm_src(st)[:60]}`: provenance of the compliance not recognised (no verdict)", verdict="unknown")
    if n < 2:
        rep.ok(rule, MM, f"only {n} compliance stores found", verdict="unknown", trivial=True)


def r9_by_reference(ctx, rule="C12.R9"):
    """K18 applied to the material laws: a method whose return value is not a freshly built expression (`return self.C_n`, `return _ZEROS`)
    hands out the law's own state.  Consumers in cardillo/rods that bind such a result to a local must not modify it in place.  The rule does
    not forbid returning by reference (numpy code does so everywhere, the pinned tree in three places); it pins down who would corrupt it."""
    from .. import cachepurity as cp
    rep = ctx.rep
    mod = ctx.repo.module(MM)
    tree = mod.tree
    globals_ = {t.id for st in tree.body if isinstance(st, ast.Assign) for t in st.targets if isinstance(t, ast.Name)}
    names = {}
    for cls in [c for c in tree.body if isinstance(c, ast.ClassDef)]:
        for fn in [f for f in cls.body if isinstance(f, ast.FunctionDef)]:
            for r in [x for x in ast.walk(fn) if isinstance(x, ast.Return) and x.value is not None]:
                v = r.value
                if (isinstance(v, ast.Attribute) and isinstance(v.value, ast.Name) and v.value.id == "self") or (isinstance(v, ast.Name) and v.id in globals_):
                    names.setdefault(fn.name, []).append(f"{cls.name}.{fn.name}: `{norm_src(r)}`")
    for k, v in sorted(names.items()):
        rep.ok(rule, f"{MM}:{k}", f"handed out by reference: {'; '.join(v)[:200]}", trivial=True)
    if not names:
        rep.ok(rule, MM, "every method of the material laws returns a freshly built value")
        return
    nloc = 0
    for rel, m in sorted(ctx.repo.modules.items()):
        if not rel.startswith("cardillo/rods/"):
            continue
        for q, fn in m.defs().items():
            if not isinstance(fn, ast.FunctionDef):
                continue
            res, locs = cp.inplace_uses(fn, set(names))
            nloc += len(locs)
            seen = set()
            for st, l, call, how in res:
                if id(st) in seen:
                    continue
                seen.add(id(st))
                rep.bad(rule, f"{rel}:{q}", st, f"`{l}` is what `{norm_src(call)[:60]}` returns, and the material laws return this quantity by reference ({names[call.func.attr][0][:80]}); "
                        f"{how} rewrites the law's own stiffness / shared block: every later evaluation of every rod using the law sees the modified tangent", f"{rel}:{st.lineno}")
            if locs and not res:
                rep.ok(rule, f"{rel}:{q}", f"{len(locs)} local(s) bound to by-reference results of the material law ({', '.join(sorted(locs)[:4])}), none modified in place")
    rep.note(f"{rule}: {len(names)} by-reference methods, {nloc} consumer locals in cardillo/rods")


def per_instance_parameters(ctx, rule="C12.R12"):
    """Each law object owns its stiffnesses: what potential / B_n / B_m / tangents / compliances read through `self` is BOUND in the
    object's constructor (`self.C_n = np.diag(...)`).  A mutable block declared in a class body and filled in place by the constructor
    (`np.fill_diagonal(self.C_n, Ei)`, `self.C_n[...] = ...`) is ONE array for all objects of all subclasses: constructing a second law
    rewrites the stiffness of the first, whose compliances / complementary energy keep their own values (no Legendre pair any more) and
    whose outputs change with unchanged arguments."""
    rep = ctx.rep
    mod = ctx.repo.modules[MM]
    classes = {n.name: n for n in mod.tree.body if isinstance(n, ast.ClassDef)}
    INPLACE_FN = {"fill_diagonal", "copyto", "put", "place", "putmask"}
    INPLACE_M = {"fill", "put", "append", "extend", "update", "setdefault", "itemset", "sort", "resize", "clear", "insert"}

    def mro(c):
        out, todo = [], [c]
        while todo:
            k = todo.pop(0)
            if k in classes and k not in out:
                out.append(k)
                todo += [dotted(b) or "" for b in classes[k].bases]
        return out

    def self_attr(e):
        while isinstance(e, ast.Subscript):
            e = e.value
        if isinstance(e, ast.Attribute) and isinstance(e.value, ast.Name) and e.value.id == "self":
            return e.attr
        return None

    n = 0
    for cname, cnode in sorted(classes.items()):
        fns = {}
        for k in reversed(mro(cname)):          # methods along the module-local MRO, the class's own last (a law derived from another law)
            fns.update(class_functions(classes[k]))
        pot = fns.get("potential")
        if pot is None or any(isinstance(d, ast.Name) and d.id == "abstractmethod" or isinstance(d, ast.Attribute) and d.attr == "abstractmethod" for d in pot.decorator_list):
            continue
        shared = {}
        for k in mro(cname):
            for st in classes[k].body:
                tg = st.targets if isinstance(st, ast.Assign) else ([st.target] if isinstance(st, ast.AnnAssign) and st.value is not None else [])
                for t in tg:
                    if isinstance(t, ast.Name) and isinstance(st.value, (ast.Call, ast.List, ast.Dict, ast.Set, ast.ListComp, ast.DictComp)):
                        shared.setdefault(t.id, (k, st))
        C = f"{MM}:{cname}"
        bound = set()
        for f in fns.values():
            for w in ast.walk(f):
                if isinstance(w, ast.Assign):
                    for t in w.targets:
                        for tt in (t.elts if isinstance(t, (ast.Tuple, ast.List)) else [t]):
                            if isinstance(tt, ast.Attribute) and isinstance(tt.value, ast.Name) and tt.value.id == "self":
                                bound.add(tt.attr)
        n += 1
        bad = False
        for fname, f in sorted(fns.items()):
            for w in ast.walk(f):
                hits = []
                if isinstance(w, ast.Assign):
                    hits = [(self_attr(t), "element store") for t in w.targets if isinstance(t, ast.Subscript)]
                elif isinstance(w, ast.AugAssign):
                    hits = [(self_attr(w.target), "augmented assignment")]
                elif isinstance(w, ast.Call):
                    d = (dotted(w.func) or "").split(".")[-1]
                    if d in INPLACE_FN and w.args:
                        hits = [(self_attr(w.args[0]), f"{d}(...)")]
                    elif isinstance(w.func, ast.Attribute) and w.func.attr in INPLACE_M:
                        hits = [(self_attr(w.func.value), f".{w.func.attr}(...)")]
                    hits += [(self_attr(k.value), "out=") for k in w.keywords if k.arg == "out"]
                for a, how in hits:
                    if a and a in shared and a not in bound:
                        k, st = shared[a]
                        bad = True
                        rep.bad(rule, C, w, f"`self.{a}` is written in place ({how}) in {cname}.{fname}, but `{a}` is the block declared in the body of class {k} "
                                f"(`{norm_src(st)[:50]}`) and never bound per object: all laws share ONE array, so constructing another law rewrites this law's stiffness while "
                                "its compliances / complementary energy keep their values", f"{MM}:{w.lineno}")
        if not bad:
            rep.ok(rule, C, f"{len(bound)} parameters bound per object in the constructor ({', '.join(sorted(bound)[:6])}); no class-level block written in place")
    if n < 2:
        raise AnalysisError(f"{rule}: fewer than 2 material laws with a potential found in {MM}")


def run(ctx):
    rep = ctx.rep
    rep.rule("C12.R12", "each law object owns its stiffnesses: no mutable block declared in a class body is filled in place by the laws (one array shared by all laws of all subclasses)", 2)
    per_instance_parameters(ctx)
    rep.rule("C12.R11", "the compliances of a law are the EXACT inverses of its stiffnesses (np.linalg.inv / solve of the same block), not a pseudo-inverse with a rank cut-off: the Legendre dual must exist for every positive stiffness, whatever the ratio between axial and bending stiffness", 2)
    exact_compliances(ctx)
    rep.rule("C12.R10", "the material laws are functions of their arguments: no routine of the laws serves a remembered intermediate (cachetools, closure or instance-attribute memo) whose key omits an argument the intermediate depends on (the reference strains!)", 0)
    from . import c26 as _c26
    _c26.attribute_memos(ctx, "C12.R10", lambda rel: rel == MM)
    _c26.r1_keys(ctx, _c26.find_sites(ctx), rule="C12.R10", want_cls=lambda ci: ci.rel == MM)
    _c26.handmade_memo(ctx, "C12.R10", lambda rel: rel == MM)
    rep.rule("C12.R9", "tangents and stiffnesses the material laws hand out BY REFERENCE (`return self.C_n`, a shared module-level block) are never modified in place by the rod routines that receive them: the law stays the function of the strains it was constructed as", 3)
    r9_by_reference(ctx)
    rep.rule("C12.R8", "forces keep one factor that vanishes at the reference strains (the energy vanishes there to second order; differentiation lowers the order by one)", 4)
    vanishing_order_rule(ctx)
    rep.rule("C12.R7", "an energy computed from the law's own forces (Clapeyron) is admitted only for force laws that are linear in the strains", 2)
    clapeyron_rule(ctx)
    rep.rule("C12.R1", "homogeneity under joint strain scaling", 14)
    rep.rule("C12.R2", "homogeneity under stiffness scaling", 14)
    rep.rule("C12.R3", "tangent coverage of strain arguments", 8)
    rep.rule("C12.R4", "complementary-energy protocol", 2)
    rep.rule("C12.R6", "the complementary side (complementary_potential, C_n_inv, C_m_inv) is inherited only together with the potential it is the Legendre dual of", 2)
    dual_pairing(ctx)
    rep.rule("C12.R5", "dependence monotonicity (K13): forces read no datum the energy does not read, tangents none the forces do not read (live references vs constructor copies)", 12)
    from .. import depmono, protocol
    for cname_ in ("Simo1986", "Harsch2021"):
        ci_ = ctx.model.cls(cname_)
        v_ = protocol.ClassView(ctx, ci_)
        for p_, d_ in (("potential", "B_n"), ("potential", "B_m"), ("B_n", "B_n_B_Gamma"), ("B_n", "B_n_B_Kappa"), ("B_m", "B_m_B_Gamma"), ("B_m", "B_m_B_Kappa")):
            c_, f_ = v_.method(d_)
            if f_ is None:
                continue
            depmono.check(rep, "C12.R5", v_, ci_.rel, cname_, p_, d_, lineno=f_.lineno)
    mod = ctx.repo.module(MM)
    law_names = {"RodMaterialModel"}
    for _ in range(3):  # direct and indirect subclasses of the abstract law
        law_names |= {n.name for n in mod.tree.body if isinstance(n, ast.ClassDef) and any(dotted(b) in law_names for b in n.bases)}
    laws = [n for n in mod.tree.body if isinstance(n, ast.ClassDef) and n.name in law_names and n.name != "RodMaterialModel"]
    if len(laws) < 2:
        raise AnalysisError("fewer than two rod material laws found")
    for law in laws:
        fns = class_functions(law)
        # ---------------- R1 strain group
        expect1 = {"potential": F(2), "B_n": F(1), "B_m": F(1), "B_n_B_Gamma": F(0), "B_n_B_Kappa": F(0), "B_m_B_Gamma": F(0), "B_m_B_Kappa": F(0)}
        it = Interp(fns, builtin_norm=("norm",))
        init_attr_degs(it, fns, {"self.Ei": F(0), "self.Fi": F(0)})
        for m, want in expect1.items():
            if m not in fns:
                continue
            it.violations.clear()
            d = it.run(m, {a: F(1) for a in ARGS})
            C = f"{MM}:{law.name}.{m}"
            _report(rep, "C12.R1", C, it, d, want, "joint strain scaling (all strains -> s * strains)", MM)
        # ---------------- R2 stiffness group
        expect2 = {"potential": F(1), "B_n": F(1), "B_m": F(1), "B_n_B_Gamma": F(1), "B_n_B_Kappa": F(1), "B_m_B_Gamma": F(1), "B_m_B_Kappa": F(1)}
        it2 = Interp(fns, builtin_norm=("norm",))
        init_attr_degs(it2, fns, {"self.Ei": F(1), "self.Fi": F(1)})
        for m, want in expect2.items():
            if m not in fns:
                continue
            it2.violations.clear()
            d = it2.run(m, {a: F(0) for a in ARGS})
            C = f"{MM}:{law.name}.{m}"
            _report(rep, "C12.R2", C, it2, d, want, "stiffness scaling ((Ei, Fi) -> s * (Ei, Fi))", MM)
        for attr, want in (("self.C_n", F(1)), ("self.C_m", F(1)), ("self.C_n_inv", F(-1)), ("self.C_m_inv", F(-1))):
            if attr in it2.attr:
                d = it2.attr[attr]
                C = f"{MM}:{law.name}.__init__"
                if d == want or d == Z:
                    rep.ok("C12.R2", C, f"{attr} has stiffness degree {fmt(d)}")
                elif is_ground(d):
                    rep.bad("C12.R2", C, f"{attr}", f"{attr} has stiffness degree {fmt(d)}, expected {want}", f"{MM}:{fns['__init__'].lineno}")
        if "complementary_potential" in fns:
            it2.violations.clear()
            d = it2.run("complementary_potential", {"B_n": F(0), "B_m": F(0)})
            _report(rep, "C12.R2", f"{MM}:{law.name}.complementary_potential", it2, d, F(-1), "stiffness scaling", MM)
            it.violations.clear()
            d = it.run("complementary_potential", {"B_n": F(1), "B_m": F(1)})
            _report(rep, "C12.R1", f"{MM}:{law.name}.complementary_potential", it, d, F(2), "stress scaling ((B_n, B_m) -> s * (B_n, B_m))", MM)
        # ---------------- R3 coverage
        def reads(fn):
            return {n.id for s in fn.body for n in ast.walk(s) if isinstance(n, ast.Name) and isinstance(n.ctx, ast.Load)}

        def nonlinear_in(fn, arg):
            """arg appears outside a plain difference with its reference (norm(arg), arg in a denominator, products of arg with itself)."""
            for n in ast.walk(fn):
                if isinstance(n, ast.Call) and (dotted(n.func) or "").split(".")[-1] in ("norm", "outer") and any(isinstance(x, ast.Name) and x.id == arg for a in n.args for x in ast.walk(a)):
                    return True
            return False
        for force, strains in (("B_n", ("B_Gamma", "B_Kappa")), ("B_m", ("B_Gamma", "B_Kappa"))):
            if force not in fns:
                continue
            fr = reads(fns[force])
            for sname in strains:
                t = f"{force}_{sname}"
                if t not in fns:
                    rep.bad("C12.R3", f"{MM}:{law.name}", f"tangent {t}", f"law has no tangent {t}", f"{MM}:{law.lineno}")
                    continue
                C = f"{MM}:{law.name}.{t}"
                tr = reads(fns[t])
                body = [s for s in fns[t].body if not (isinstance(s, ast.Expr) and isinstance(s.value, ast.Constant))]
                zero = len(body) == 1 and isinstance(body[0], ast.Return) and isinstance(body[0].value, ast.Call) and (dotted(body[0].value.func) or "").endswith("zeros")
                if sname in fr:
                    if zero:
                        rep.bad("C12.R3", C, body[0], f"`{force}` depends on {sname} but its tangent `{t}` is identically zero", f"{MM}:{fns[t].lineno}")
                    elif nonlinear_in(fns[force], sname) and sname not in tr:
                        rep.bad("C12.R3", C, body[-1], f"`{force}` depends non-linearly on {sname} but `{t}` never reads {sname}", f"{MM}:{fns[t].lineno}")
                    else:
                        rep.ok("C12.R3", C, f"{force} depends on {sname}; tangent reads {sorted(tr & set(ARGS)) or 'constants'}")
                else:
                    if zero:
                        rep.ok("C12.R3", C, f"{force} does not depend on {sname}; tangent is zero")
                    else:
                        rep.bad("C12.R3", C, body[-1], f"`{force}` has no data path from {sname} but its tangent `{t}` is not zero", f"{MM}:{fns[t].lineno}")
        # ---------------- R4
        init_src = ast.unparse(fns["__init__"]) if "__init__" in fns else ""
        have = {"complementary_potential": "complementary_potential" in fns, "C_n_inv": "self.C_n_inv" in init_src, "C_m_inv": "self.C_m_inv" in init_src}
        C = f"{MM}:{law.name}"
        if all(have.values()) or not any(have.values()):
            rep.ok("C12.R4", C, f"complementary-energy protocol {'complete' if all(have.values()) else 'not offered'}")
        else:
            rep.bad("C12.R4", C, f"{have}", f"law offers only part of (complementary_potential, C_n_inv, C_m_inv): {have}", f"{MM}:{law.lineno}")


def _report(rep, rule, C, it, d, want, group, rel):
    if it.violations:
        for v in it.violations:
            rep.bad(rule, C, v.node, f"under {group}: {v.msg} in `{norm_src(v.node)[:110]}`: the expression is not homogeneous, so it cannot be the stated "
                    f"quantity for all strain states", f"{rel}:{getattr(v.node, 'lineno', 0)}")
        return
    if d == want or d == Z:
        rep.ok(rule, C, f"degree {fmt(d)} under {group}")
    elif is_ground(d):
        rep.bad(rule, C, f"degree {fmt(d)}", f"under {group} the result scales with degree {fmt(d)} instead of {want}", f"{rel}:0")
    else:
        rep.ok(rule, C, f"degree not inferred ({fmt(d)}) under {group}", trivial=True)


MUTANTS = [
    dict(id="c12-m1", canary=True, what="Harsch2021.B_n_B_Gamma without the lambda0 factor (original defect)", file=MM,
         old="            + lambda0_ * np.outer(B_Gamma, B_Gamma) / lambda_**3", new="            + np.outer(B_Gamma, B_Gamma) / lambda_**3", expect="C12.R1"),
    dict(id="c12-m2", canary=True, what="Simo1986.complementary_potential uses the stiffness instead of the compliance", file=MM,
         old="        return 0.5 * B_n @ self.C_n_inv @ B_n + 0.5 * B_m @ self.C_m_inv @ B_m", new="        return 0.5 * B_n @ self.C_n @ B_n + 0.5 * B_m @ self.C_m_inv @ B_m", expect="C12.R2"),
    dict(id="c12-m3", what="Harsch2021.B_n: axial term with lambda instead of the ratio", file=MM,
         old="        return self.C_n @ dG + self.Ei[0] * (1 - lambda0_ / lambda_) * B_Gamma", new="        return self.C_n @ dG + self.Ei[0] * (1 - lambda0_ * lambda_) * B_Gamma", expect="C12.R1"),
    dict(id="c12-m4", what="Simo1986.B_m_B_Kappa returns zeros", file=MM,
         old="    def B_m_B_Kappa(self, B_Gamma, B_Gamma0, B_Kappa, B_Kappa0):\n        return self.C_m\n\n\nclass Harsch2021",
         new="    def B_m_B_Kappa(self, B_Gamma, B_Gamma0, B_Kappa, B_Kappa0):\n        return np.zeros((3, 3), dtype=float)\n\n\nclass Harsch2021", expect="C12.R3"),
    dict(id="c12-m5", what="Harsch2021.potential: axial energy linear in the stretch difference", file=MM,
         old="            + 0.5 * self.Ei[0] * (lambda_ - lambda0_) ** 2", new="            + 0.5 * self.Ei[0] * (lambda_ - lambda0_)", expect="C12.R1"),
    dict(id="c12-m6", what="Simo1986.B_n ignores the stiffness", file=MM,
         old="        dG = B_Gamma - B_Gamma0\n        return self.C_n @ dG\n", new="        dG = B_Gamma - B_Gamma0\n        return dG\n", expect="C12.R2"),
    dict(id="c12-m7", what="Harsch2021.B_n_B_Gamma: identity term dropped the stretch ratio", file=MM,
         old="            (1 - lambda0_ / lambda_) * np.eye(3)", new="            (1 - lambda0_) * np.eye(3)", expect="C12.R1"),
]
MUTANTS += [
    dict(id="c12-r5-seed", canary=True, what="[seeded by sub-agent] Simo1986.B_n / B_m scale with the caller's live Ei / Fi arrays while energy and tangents use the copies C_n / C_m", file=MM,
         edits=[(MM, "        dG = B_Gamma - B_Gamma0\n        return self.C_n @ dG\n", "        return self.Ei * (B_Gamma - B_Gamma0)\n")], expect="C12.R5"),
]
MUTANTS += [
    dict(id="c12-r6-seed", canary=True, what="[seeded by sub-agent] Harsch2021 derives from Simo1986 and inherits its complementary energy and compliances", file=MM,
         old="class Harsch2021(RodMaterialModel):", new="class Harsch2021(Simo1986):", expect="C12.R6"),
]
NEUTRAL = [
    dict(id="c12-n1", canary=True, what="Simo1986.potential written with explicit transposes", file=MM,
         old="        return 0.5 * dG @ self.C_n @ dG + 0.5 * dK @ self.C_m @ dK", new="        e_n = 0.5 * dG.T @ (self.C_n @ dG)\n        e_m = 0.5 * dK.T @ (self.C_m @ dK)\n        return e_n + e_m"),
]
MUTANTS += [
    dict(id="c12-r7-seed", canary=True, what="[seeded by sub-agent] Harsch2021.potential replaced by half the work of its (nonlinear) forces", file=MM,
         old="        return (\n            0.5 * dG @ self.C_n @ dG\n            + 0.5 * self.Ei[0] * (lambda_ - lambda0_) ** 2\n            + 0.5 * dK @ self.C_m @ dK\n        )\n",
         new="        B_n = self.B_n(B_Gamma, B_Gamma0, B_Kappa, B_Kappa0)\n        B_m = self.B_m(B_Gamma, B_Gamma0, B_Kappa, B_Kappa0)\n        return 0.5 * (B_n @ dG + B_m @ dK)\n", expect="C12.R7"),
]
NEUTRAL += [
    dict(id="c12-n-r7", canary=True, what="Simo1986.potential written as half the work of its linear forces", file=MM,
         old="        return 0.5 * dG @ self.C_n @ dG + 0.5 * dK @ self.C_m @ dK\n",
         new="        return 0.5 * (self.B_n(B_Gamma, B_Gamma0, B_Kappa, B_Kappa0) @ dG + self.B_m(B_Gamma, B_Gamma0, B_Kappa, B_Kappa0) @ dK)\n"),
]
MUTANTS += [
    dict(id="c12-r8-seed", canary=True, what="[seeded by sub-agent] Harsch2021.B_n as secant stiffness times B_Gamma (reference shear term dropped)", file=MM,
         old="        return self.C_n @ dG + self.Ei[0] * (1 - lambda0_ / lambda_) * B_Gamma\n", new="        return self.C_n @ B_Gamma + self.Ei[0] * (1 - lambda0_ / lambda_) * B_Gamma\n", expect="C12.R8"),
]

MUTANTS += [
    dict(id="c12-r9-inplace", canary=True, what="rod Jacobian routine scales the law's tangent in place by the quadrature weight (B_n_B_Gamma *= qwi rewrites Simo1986.C_n itself)", file='cardillo/rods/_base.py',
         old='            B_n_qe = B_n_B_Gamma @ B_Gamma_qe + B_n_B_Kappa @ B_Kappa_qe\n', new="            B_n_B_Gamma *= qwi\n"+'            B_n_qe = B_n_B_Gamma @ B_Gamma_qe + B_n_B_Kappa @ B_Kappa_qe\n', expect="C12.R9"),
]
NEUTRAL += [
    dict(id="c12-n-r9", canary=True, what="rod Jacobian routine scales a product with the law's tangent (fresh array)", file='cardillo/rods/_base.py',
         old='            B_n_qe = B_n_B_Gamma @ B_Gamma_qe + B_n_B_Kappa @ B_Kappa_qe\n', new="            B_n_qe = (B_n_B_Gamma * 1.0) @ B_Gamma_qe + B_n_B_Kappa @ B_Kappa_qe\n"),
]

MUTANTS += [
    dict(id="c12-r10-seed", canary=True, what="[seeded by sub-agent] Harsch2021 keeps the last (|B_Gamma|, |B_Gamma0|) on the instance, keyed by B_Gamma only", file=MM,
         old='        self.C_m = np.diag(self.Fi)\n\n    def potential(self, B_Gamma, B_Gamma0, B_Kappa, B_Kappa0):\n        dG = B_Gamma - B_Gamma0\n        lambda_ = norm(B_Gamma)\n        lambda0_ = norm(B_Gamma0)\n', new='        self.C_m = np.diag(self.Fi)\n        self._stretch_key = None\n        self._stretch = None\n\n    def _stretches(self, B_Gamma, B_Gamma0):\n        key = B_Gamma.tobytes()\n        if key != self._stretch_key:\n            self._stretch_key = key\n            self._stretch = norm(B_Gamma), norm(B_Gamma0)\n        return self._stretch\n\n    def potential(self, B_Gamma, B_Gamma0, B_Kappa, B_Kappa0):\n        dG = B_Gamma - B_Gamma0\n        lambda_, lambda0_ = self._stretches(B_Gamma, B_Gamma0)\n', expect="C12.R10"),
]
NEUTRAL += [
    dict(id="c12-n-r10", canary=True, what="Harsch2021 keeps the last stretches on the instance, keyed by both strains", file=MM, old='        self.C_m = np.diag(self.Fi)\n\n    def potential(self, B_Gamma, B_Gamma0, B_Kappa, B_Kappa0):\n        dG = B_Gamma - B_Gamma0\n        lambda_ = norm(B_Gamma)\n        lambda0_ = norm(B_Gamma0)\n', new='        self.C_m = np.diag(self.Fi)\n        self._stretch_key = None\n        self._stretch = None\n\n    def _stretches(self, B_Gamma, B_Gamma0):\n        key = B_Gamma.tobytes() + B_Gamma0.tobytes()\n        if key != self._stretch_key:\n            self._stretch_key = key\n            self._stretch = norm(B_Gamma), norm(B_Gamma0)\n        return self._stretch\n\n    def potential(self, B_Gamma, B_Gamma0, B_Kappa, B_Kappa0):\n        dG = B_Gamma - B_Gamma0\n        lambda_, lambda0_ = self._stretches(B_Gamma, B_Gamma0)\n'),
]

MUTANTS += [
    dict(id="c12-r11-seed", canary=True, what="[seeded by sub-agent] Simo1986 builds its compliances from the pseudo-inverse of the joint 6x6 stiffness (rank cut-off relative to the largest entry)", file=MM,
         old='        self.C_n_inv = np.linalg.inv(self.C_n)\n        self.C_m_inv = np.linalg.inv(self.C_m)\n', new='        C_inv = np.linalg.pinv(np.block([[self.C_n, np.zeros((3, 3))], [np.zeros((3, 3)), self.C_m]]))\n        self.C_n_inv = C_inv[:3, :3]\n        self.C_m_inv = C_inv[3:, 3:]\n', expect="C12.R11"),
]
NEUTRAL += [
    dict(id="c12-n-r11", canary=True, what="Simo1986 builds its compliances with np.linalg.solve(C, I)", file=MM, old='        self.C_n_inv = np.linalg.inv(self.C_n)\n        self.C_m_inv = np.linalg.inv(self.C_m)\n', new='        self.C_n_inv = np.linalg.solve(self.C_n, np.eye(3))\n        self.C_m_inv = np.linalg.solve(self.C_m, np.eye(3))\n'),
]

MUTANTS += [
    dict(id="c12-r12-seed", canary=True, what="[seeded by sub-agent] C_n / C_m declared as float blocks in the body of RodMaterialModel and filled in place by Simo1986's constructor",
         edits=[(MM, '    """Abstract class for rod material models"""\n', '    """Abstract class for rod material models"""\n\n    C_n = np.zeros((3, 3), dtype=float)\n    C_m = np.zeros((3, 3), dtype=float)\n'),
                (MM, "        self.C_n = np.diag(self.Ei)\n        self.C_m = np.diag(self.Fi)\n\n        self.C_n_inv", "        np.fill_diagonal(self.C_n, self.Ei)\n        np.fill_diagonal(self.C_m, self.Fi)\n\n        self.C_n_inv")], expect="C12.R12"),
]
NEUTRAL += [
    dict(id="c12-n-r12", canary=True, what="Simo1986 builds its stiffness blocks as float arrays filled in place, bound per object", file=MM,
         old="        self.C_n = np.diag(self.Ei)\n        self.C_m = np.diag(self.Fi)\n\n        self.C_n_inv", new="        self.C_n = np.zeros((3, 3), dtype=float)\n        self.C_m = np.zeros((3, 3), dtype=float)\n        np.fill_diagonal(self.C_n, self.Ei)\n        np.fill_diagonal(self.C_m, self.Fi)\n\n        self.C_n_inv"),
]
