"""C23  Static solvers return equilibria and are frame-indifferent.

Structural clauses decided (cardillo/solver/statics.py):
 R1 residual <-> Jacobian   for Newton.fun/jac and Riks.R/J: every force family W_x la_x in the equilibrium row has its
                            geometric stiffness Wla_x_q in K and its direction W_x in the first block row of the Jacobian,
                            and vice versa (a family present in the Jacobian is present in the residual)
 R2 residual rows           the residual contains the equilibrium row and rows for g, c, g_S and the static Signorini
                            condition min(la_N, g_N); the Jacobian has a block row for each of them
 R3 same evaluation point   every System evaluation in residual and Jacobian uses the same (t, q) pair (and u = u0 = 0)
 R4 loud early stop         shared with C21 (flag walker): Newton's truncated return warns with the load step and drops the
                            failed step; Riks asserts success
 R6 every returned load step was solved
                            (index-interval rule on Newton.solve) the load-step loop runs over range(0, self.nt) with
                            self.nt = len(self.load_steps) = number of rows of self.x; row i is written from the fsolve result of
                            load level load_steps[i]; every returned slice starts at row 0 and ends at i (early stop, failed step
                            dropped) or i + 1: returned index interval is contained in the solved one
 R7 initial point of the arc-length path
                            the first returned point pairs the initial state (q0, la_c0, la_g0, la_N0) with the load parameter of
                            the vector the algorithm treats as the last converged point (self.xk), not with another load level
 R8 iteration limits are loud
                            a path-following loop that can end because a step limit is reached (`... and load_step <= self.max_load_steps`)
                            says so: after the loop a warning / raise is guarded by that limit ("a run that stops early says so")
 R5 stored-row isolation    (K11, sa/alias.py) no returned point shares memory with a buffer that is modified in place after the
                            point was stored: "every point returned" is the point that was solved for
"""
from __future__ import annotations

import ast

from ..core import AnalysisError, dotted, norm_src
from .. import termset
from .. import alias

EXPLANATION = ("Term-set extraction over residual and Jacobian of both static solvers, pairing W_x/la_x with Wla_x_q/W_x; "
               "row inventory of residual vs bmat block rows; evaluation-point normalisation; C21's flag walker for the early stop.")
NOT_DECIDED = "size of the equilibrium residual at the returned points; frame indifference (a value property of the model)."
ASSUMPTIONS = ["static solvers treat the families {g, c, g_S, g_N}; velocity-level constraints, friction and actuators are reported under C21.R3"]
BLIND_SPOTS = ["a wrong sign in the residual that is mirrored in the Jacobian"]
ST = "cardillo/solver/statics.py"
PAIRS = [("W_g", "Wla_g_q"), ("W_c", "Wla_c_q"), ("W_N", "Wla_N_q")]


def run(ctx):
    rep = ctx.rep
    rep.rule("C23.R12", "Riks: the load level stored with a returned point is the one the point was SOLVED at (the last entry of the solution vector, unmodified): no clipping / rounding between the solve and the append to the returned load levels", 1)
    stored_load_level(ctx)
    rep.rule("C23.R11", "static solvers evaluate every force at ZERO velocity: the velocity argument they hand to the system is a zero buffer of their own (np.zeros(system.nu)), not the model's initial velocity or any other state", 2)
    static_velocity_zero(ctx)
    rep.rule("C23.R10", "frame indifference of the applied loads: a load datum given in the I-basis (Force, Moment) or the body basis (B_Force, B_Moment) is contracted with a Jacobian of the same basis, changing basis with A_IB in the right direction (A_IB @ B-vector, I-vector @ A_IB)", 4)
    load_bases(ctx)
    rep.rule("C23.R1", "force families agree between residual and Jacobian", 6)
    rep.rule("C23.R2", "residual rows and Jacobian block rows", 10)
    rep.rule("C23.R3", "single evaluation point", 20)
    rep.rule("C23.R4", "loud early stop (C21 engine)", 2)
    rep.rule("C23.R5", "stored points are not modified after they were stored (may-alias analysis)", 1)
    alias.report(rep, "C23.R5", ctx.repo, [(ST, "Newton"), (ST, "Riks")])
    rep.rule("C23.R9", "every nonlinear solve of a solver is run with the solver's configured options", 6)
    options_forwarded(ctx)
    rep.rule("C23.R8", "a static solver loop that can stop at a step limit warns or raises when it did", 1)
    step_limit_loud(ctx)
    rep.rule("C23.R7", "Riks: state and load parameter of the first returned point belong to the same point (self.xk)", 1)
    riks_first_point(ctx)
    rep.rule("C23.R6", "every returned Newton load step has been solved at its own load level (index intervals)", 12)
    newton_rows(ctx)
    for cname, rname, jname in (("Newton", "fun", "jac"), ("Riks", "R", "J")):
        cls = ctx.repo.get(ST, cname)
        rf = ctx.repo.get(ST, f"{cname}.{rname}")
        jf = ctx.repo.get(ST, f"{cname}.{jname}")
        rr = termset.Resolver(rf, cls)
        jr = termset.Resolver(jf, cls)
        Cr, Cj = f"{ST}:{cname}.{rname}", f"{ST}:{cname}.{jname}"
        sites = termset.eom_sites(rf, rr)
        if not sites:
            raise AnalysisError(f"{Cr}: equilibrium row (expression containing system.h) not found")
        site, fam = sites[0]
        # K in the Jacobian: additive site containing h_q
        ksite = None
        for s in termset.additive_sites(jf):
            f = jr.families(s)
            if "h_q" in f:
                ksite = (s, f)
        if ksite is None:
            raise AnalysisError(f"{Cj}: tangent stiffness (expression containing system.h_q) not found")
        bm = [n for n in ast.walk(jf) if isinstance(n, ast.Call) and dotted(n.func) == "bmat"]
        if not bm or not isinstance(bm[0].args[0], ast.List):
            raise AnalysisError(f"{Cj}: bmat not found")
        rows = bm[0].args[0].elts
        row0 = set()
        for e in (rows[0].elts if isinstance(rows[0], ast.List) else []):
            fe = jr.families(e) | rr.families(e)
            if len(fe) == 1:
                row0 |= fe  # a block that is exactly one System matrix (W_g, W_c, W_N)
        for (w, wq) in PAIRS:
            in_res = w in fam
            in_K = wq in ksite[1]
            in_row = w in row0
            if in_res and in_K and in_row:
                rep.ok("C23.R1", Cj, f"{w} la: residual, K ({wq}) and first block row all contain the family")
            elif not in_res and not in_K and not in_row:
                rep.ok("C23.R1", Cj, f"{w}: absent from residual and Jacobian alike", trivial=True)
            else:
                where = [x for x, b in (("residual", in_res), (f"K ({wq})", in_K), ("first block row", in_row)) if b]
                lack = [x for x, b in (("residual", in_res), (f"K ({wq})", in_K), ("first block row", in_row)) if not b]
                tgt = site if not in_res else (ksite[0] if not in_K else rows[0])
                rep.bad("C23.R1", Cr if not in_res else Cj, tgt,
                        f"force family {w} la appears in {where} but not in {lack}: the Newton iteration solves a system whose residual and "
                        f"Jacobian describe different equations", f"{ST}:{tgt.lineno}")
        # R2 rows
        rfam = set()
        for n in ast.walk(rf):
            if isinstance(n, ast.Assign) and isinstance(n.targets[0], ast.Subscript):
                rfam |= rr.families(n.value)
        minrow = any(isinstance(n, ast.Call) and dotted(n.func) == "np.minimum" and {"la_N"} <= {x.id for x in ast.walk(n) if isinstance(x, ast.Name)}
                     and "g_N" in (rr.families(n) | {x.attr for x in ast.walk(n) if isinstance(x, ast.Attribute)}) for n in ast.walk(rf))
        for q in ("h", "g", "c", "g_S"):
            if q in rfam:
                rep.ok("C23.R2", Cr, f"residual has a row for system.{q}")
            else:
                rep.bad("C23.R2", Cr, f"row: {q}", f"the residual has no row for system.{q}: returned points need not satisfy it", f"{ST}:{rf.lineno}")
        if minrow:
            rep.ok("C23.R2", Cr, "static Signorini row np.minimum(la_N, g_N)")
        else:
            rep.bad("C23.R2", Cr, "np.minimum(la_N, g_N)", "the static Signorini condition min(la_N, g_N) = 0 is missing from the residual", f"{ST}:{rf.lineno}")
        jfam_rows = [jr.families(r) | {x.id for x in ast.walk(r) if isinstance(x, ast.Name)} for r in rows]
        for q, tag in (("g_q", "g"), ("c_q", "c"), ("g_S_q", "g_S"), ("Rla_N_q", "min(la_N, g_N)")):
            if any(q in f for f in jfam_rows):
                rep.ok("C23.R2", Cj, f"Jacobian has a block row for {tag}")
            else:
                rep.bad("C23.R2", Cj, bm[0], f"the Jacobian has no block row for {tag} ({q})", f"{ST}:{bm[0].lineno}")
        # R3 evaluation point
        for f_, res_, C_ in ((rf, rr, Cr), (jf, jr, Cj)):
            for n in ast.walk(f_):
                m = termset.is_system_call(n)
                if not m or m in ("c_la_c",):
                    continue
                args = [norm_src(a) for a in n.args]
                okp = args[:2] == ["t", "q"] or (cname == "Riks" and args[:2] == ["t + eps", "q"])
                if len(args) >= 3 and m in ("h", "h_q", "c", "c_q"):
                    okp = okp and args[2] == "self.u0"
                if okp:
                    rep.ok("C23.R3", C_, f"system.{m}({', '.join(args)})")
                else:
                    rep.bad("C23.R3", C_, n, f"system.{m} is evaluated at ({', '.join(args[:3])}) instead of (t, q[, self.u0])", f"{ST}:{n.lineno}")
    # R4 via C21 engine
    from . import c21
    eng = c21.Engine(ctx)
    for q in ("Newton.solve", "Riks.solve"):
        key = (ST, q)
        flags = c21.find_flags(eng.funcs[key])
        for flag in sorted(flags):
            w = eng.walk(key, flag)
            bad = [(k, n, st) for (k, n, st) in w.events if k != "transfer" and (not st[2] or (k == "truncated" and not st[3]))]
            C = f"{ST}:{q}"
            if bad:
                k, n, st = bad[0]
                rep.bad("C23.R4", C, n.ast if n.ast is not None else flag, f"a run that stops early with `{flag}` false does not say so (no warning naming the load step / no raise)",
                        f"{ST}:{n.lineno}")
            else:
                rep.ok("C23.R4", C, f"flag `{flag}`: every escape with a false flag is loud ({len(w.events)} events)")


def _resolve_ranges(fn, expr, depth=0):
    """range(...) calls an iterable expression may denote (through local names and tqdm wrappers)."""
    if depth > 4:
        return None
    if isinstance(expr, ast.Call):
        d = dotted(expr.func)
        if d == "range":
            return [expr]
        if d in ("tqdm", "enumerate") and expr.args:
            return _resolve_ranges(fn, expr.args[0], depth + 1)
        return None
    if isinstance(expr, ast.Name):
        out = []
        for n in ast.walk(fn):
            if isinstance(n, ast.Assign) and any(isinstance(t, ast.Name) and t.id == expr.id for t in n.targets):
                if isinstance(n.value, ast.Call) and dotted(n.value.func) == "tqdm" and n.value.args and isinstance(n.value.args[0], ast.Name) \
                        and n.value.args[0].id == expr.id:
                    continue  # pbar = tqdm(pbar): same underlying iterable
                r = _resolve_ranges(fn, n.value, depth + 1)
                if r is None:
                    return None
                out += r
        return out or None
    return None


def stored_load_level(ctx, rule="C23.R12"):
    """The arc-length loop always ends on a converged point whose load parameter lies OUTSIDE the span.  Returned with its true level it is an
    equilibrium; relabelled with the span bound (np.clip for the progress bar, reused for the stored level) its state belongs to another load
    and the equilibrium rows are violated by overshoot * |dh/dt|."""
    from ..cfg import CFG
    from ..dataflow import ReachingDefs
    rep = ctx.rep
    rel = "cardillo/solver/statics.py"
    fn = ctx.repo.maybe(rel, "Riks.solve")
    C = f"{rel}:Riks.solve"
    if fn is None:
        rep.ok(rule, C, "Riks.solve not found (no verdict)", verdict="unknown", trivial=True)
        return
    cfg = CFG(fn)
    rd = ReachingDefs(cfg)
    apps = [n for n in cfg.nodes if n.kind == "stmt" and isinstance(n.ast, ast.Expr) and isinstance(n.ast.value, ast.Call) and isinstance(n.ast.value.func, ast.Attribute)
            and n.ast.value.func.attr == "append" and norm_src(n.ast.value.func.value) == "la_arc" and n.ast.value.args]
    if not apps:
        rep.ok(rule, C, "no `la_arc.append(...)` found (no verdict)", verdict="unknown", trivial=True)
        return
    LOSSY = {"clip", "minimum", "maximum", "min", "max", "round", "around", "floor", "ceil"}
    for ap in apps:
        names = {w.id for w in ast.walk(ap.ast.value.args[0]) if isinstance(w, ast.Name)}
        bad = None
        for nm in names:
            for d in rd.defs_reaching(ap, nm):
                if d.ast is None or not isinstance(d.ast, ast.Assign):
                    continue
                for c in ast.walk(d.ast.value):
                    if isinstance(c, ast.Call) and (dotted(c.func) or "").split(".")[-1] in LOSSY:
                        bad = (d, c)
        if bad:
            d, c = bad
            rep.bad(rule, C, d.ast, f"`{norm_src(ap.ast)}` stores a load level that went through `{norm_src(c)[:60]}`: the last point of a complete run (which always overshoots the span) is returned "
                    "with the span bound as its load while its state is the equilibrium of the overshot load - the equilibrium rows are violated at that point, with full success reported",
                    f"{rel}:{d.lineno}")
        else:
            rep.ok(rule, C, f"`{norm_src(ap.ast)}`: the level of the solution vector, unmodified")


def static_velocity_zero(ctx, rule="C23.R11"):
    """'returns equilibria': h(t, q, 0) + W la = 0.  Newton and Riks pass `self.u0` as velocity to h, c, h_q, c_q, ...; the returned Solution
    reports u = 0.  If self.u0 is the system's initial velocity, dampers and gyroscopic terms enter the residual that is driven to zero and
    the returned points are not static equilibria (and depend on the model's velocity state) - silently, with full success."""
    rep = ctx.rep
    rel = "cardillo/solver/statics.py"
    n = 0
    for cname in ("Newton", "Riks"):
        cls = ctx.repo.maybe(rel, cname)
        if cls is None:
            continue
        C = f"{rel}:{cname}"
        stores = [w for f in cls.body if isinstance(f, ast.FunctionDef) for w in ast.walk(f) if isinstance(w, ast.Assign) and any(norm_src(t) == "self.u0" for t in w.targets)]
        uses = [w for f in cls.body if isinstance(f, ast.FunctionDef) for w in ast.walk(f) if isinstance(w, ast.Call) and norm_src(w.func).startswith("self.system.")
                and any(norm_src(a) == "self.u0" for a in w.args)]
        if not uses:
            rep.ok(rule, C, "no system evaluation with self.u0 as velocity argument (no verdict)", verdict="unknown", trivial=True)
            continue
        for st in stores:
            n += 1
            v = st.value
            zero = isinstance(v, ast.Call) and (dotted(v.func) or "").split(".")[-1] in ("zeros", "zeros_like")
            if zero:
                rep.ok(rule, C, f"`{norm_src(st)[:50]}`: {len(uses)} system evaluations at zero velocity")
            else:
                rep.bad(rule, C, st, f"`{norm_src(st)[:60]}` is the velocity the solver hands to {len(uses)} system evaluations (h, c, h_q, ...): with non-zero initial velocities of the model the "
                        "residual contains damper / gyroscopic forces, the converged points are not static equilibria and no warning is raised", f"{rel}:{st.lineno}")
    if n < 2:
        rep.ok(rule, rel, f"only {n} definitions of self.u0 found", verdict="unknown", trivial=True)


def load_bases(ctx, rule="C23.R10"):
    """K15-style basis typing of the generalized force of the four load classes.  The datum's basis is the class's contract (prefix `B_`:
    body-fixed components, else inertial).  `A_IB @ v` needs v in B and yields I;  `v @ A_IB` (= A_IB.T @ v) needs v in I and yields B;
    `v @ J_P` / `v @ J_R` need v in I,  `v @ B_J_R` needs v in B.  A transposed change of basis is exact while the load axis is the rotation
    axis (every planar benchmark) and makes the applied load depend on the body's absolute orientation otherwise - the moved problem's
    equilibria are then not the moved equilibria."""
    rep = ctx.rep
    JB = {"J_P": "I", "J_R": "I", "B_J_R": "B", "B_J_P": "B"}
    n = 0
    for rel in ("cardillo/forces/force.py", "cardillo/forces/moment.py"):
        mod = ctx.repo.modules.get(rel)
        if mod is None:
            continue
        for cls in [c for c in mod.tree.body if isinstance(c, ast.ClassDef)]:
            D = "B" if cls.name.startswith("B_") else "I"
            fn = next((f for f in cls.body if isinstance(f, ast.FunctionDef) and f.name == "h"), None)
            if fn is None:
                continue
            C = f"{rel}:{cls.name}.h"
            binds = {w.targets[0].id: w.value for w in ast.walk(fn) if isinstance(w, ast.Assign) and len(w.targets) == 1 and isinstance(w.targets[0], ast.Name)}
            problems = []

            def selfcall(e):
                return e.func.attr if isinstance(e, ast.Call) and isinstance(e.func, ast.Attribute) and dotted(e.func.value) == "self" else None

            def ty(e, depth=0):
                """basis of a vector expression: 'I' | 'B' | None (unknown); conflicts are appended to problems"""
                if depth > 8:
                    return None
                if isinstance(e, ast.Name) and e.id in binds:
                    return ty(binds[e.id], depth + 1)
                if selfcall(e) in ("force", "moment"):
                    return D
                if isinstance(e, ast.UnaryOp):
                    return ty(e.operand, depth + 1)
                if isinstance(e, ast.BinOp) and isinstance(e.op, (ast.Mult, ast.Div)):
                    return ty(e.left, depth + 1) or ty(e.right, depth + 1)
                if isinstance(e, ast.BinOp) and isinstance(e.op, ast.MatMult):
                    L, R = e.left, e.right
                    Lt = isinstance(L, ast.Attribute) and L.attr == "T" and selfcall(L.value) == "A_IB"
                    if selfcall(L) == "A_IB" or Lt:
                        v = ty(R, depth + 1)
                        need, out = ("I", "B") if Lt else ("B", "I")
                        if v is not None and v != need:
                            problems.append((e, f"`{norm_src(e)[:60]}` applies {'A_IB.T' if Lt else 'A_IB'} to a vector given in the {v}-basis (it maps {need}-components to {out}-components)"))
                        return out if v is not None else None
                    Rt = isinstance(R, ast.Attribute) and R.attr == "T" and selfcall(R.value) == "A_IB"
                    if selfcall(R) == "A_IB" or Rt:
                        v = ty(L, depth + 1)
                        need, out = ("B", "I") if Rt else ("I", "B")
                        if v is not None and v != need:
                            problems.append((e, f"`{norm_src(e)[:60]}` multiplies a {v}-basis vector from the left onto {'A_IB.T' if Rt else 'A_IB'} (= {'A_IB' if Rt else 'A_IB.T'} @ v, which maps {need}-components to {out}-components)"))
                        return out if v is not None else None
                    if selfcall(R) in JB:
                        v = ty(L, depth + 1)
                        if v is not None and v != JB[selfcall(R)]:
                            problems.append((e, f"a {v}-basis vector is contracted with `{selfcall(R)}`, whose rows are {JB[selfcall(R)]}-components"))
                        return "gen" if v is not None else None
                return None
            rets = [r.value for r in ast.walk(fn) if isinstance(r, ast.Return) and r.value is not None]
            res = [ty(r) for r in rets]
            if problems:
                e, msg = problems[0]
                rep.bad(rule, C, e, f"{cls.name} takes its datum in the {D}-basis, but {msg}: the generalized force is that of a load whose direction depends on the absolute orientation of the "
                        "body unless the load axis is the rotation axis (planar cases), so rigidly moving the problem does not move its equilibria with it", f"{rel}:{e.lineno}")
            elif res and all(r == "gen" for r in res):
                n += 1
                rep.ok(rule, C, f"`{norm_src(rets[0])[:70]}`: {D}-basis datum contracted in consistent bases")
            else:
                rep.ok(rule, C, "bases of the contraction not derivable (no verdict)", verdict="unknown", trivial=True)
    if n < 4:
        rep.ok(rule, "cardillo/forces", f"only {n} load classes typed", verdict="unknown", trivial=True)


def options_forwarded(ctx, rule="C23.R9", only=None):
    """"within the solver tolerance" means the tolerance the solver was CONFIGURED with: every nonlinear solve a solver performs hands the
    solver's options (self.options, or the constructor's `options` parameter that is stored there) to fsolve.  A call without `options=`
    solves with SolverOptions() defaults (1e-6), so with a tighter configured tolerance that point - e.g. the first point of a Riks path -
    misses the tolerance by orders of magnitude without any warning."""
    rep = ctx.rep
    n = 0
    for rel, mod in sorted(ctx.repo.modules.items()):
        if not rel.startswith("cardillo/solver/") or (only is not None and rel != only):
            continue
        for q, fn in mod.defs().items():
            if not isinstance(fn, ast.FunctionDef):
                continue
            for w in ast.walk(fn):
                if isinstance(w, ast.Call) and (dotted(w.func) or "").split(".")[-1] == "fsolve" and any(fn is f2 for f2 in [fn]):
                    # attribute the call to the innermost function only
                    inner = [f3 for f3 in ast.walk(fn) if isinstance(f3, ast.FunctionDef) and f3 is not fn and any(x is w for x in ast.walk(f3))]
                    if inner:
                        continue
                    n += 1
                    C = f"{rel}:{q}"
                    kw = next((k.value for k in w.keywords if k.arg == "options"), None)
                    if kw is None and len(w.args) >= 5:
                        kw = w.args[4]
                    if kw is not None and norm_src(kw) in ("self.options", "options"):
                        rep.ok(rule, C, f"fsolve(..., options={norm_src(kw)})")
                    elif kw is None:
                        rep.bad(rule, C, w, f"`{norm_src(w)[:70]}` does not forward the solver's options: this solve uses the default tolerances and iteration limit instead of the configured ones, "
                                "so the point it produces can miss the solver tolerance by orders of magnitude without a warning", f"{rel}:{w.lineno}")
                    else:
                        rep.bad(rule, C, w, f"fsolve is handed `{norm_src(kw)}` instead of the solver's options", f"{rel}:{w.lineno}")
    if n < (6 if only is None else 1):
        raise AnalysisError(f"{rule}: only {n} fsolve calls found in {only or 'cardillo/solver'}")


def step_limit_loud(ctx):
    rep = ctx.rep
    n = 0
    for q in ("Riks.solve", "Newton.solve"):
        fn = ctx.repo.get(ST, q)
        C = f"{ST}:{q}"
        for lp in [w for w in ast.walk(fn) if isinstance(w, ast.While)]:
            limits = [c for c in ast.walk(lp.test) if isinstance(c, ast.Compare) and any("max" in (dotted(x) or "") for x in ast.walk(c) if isinstance(x, (ast.Name, ast.Attribute)))]
            if not limits:
                continue
            n += 1
            lim = limits[0]
            counter = norm_src(lim.left)
            bound = norm_src(lim.comparators[0])
            # statements after the loop (same block) up to the return
            par = getattr(lp, "_parent", None)
            body = getattr(par, "body", [])
            after = body[body.index(lp) + 1:] if lp in body else []
            loud = False
            unreachable = None
            NEG = {ast.LtE: ">", ast.Lt: ">=", ast.GtE: "<", ast.Gt: "<=", ast.NotEq: "==", ast.Eq: "!="}
            SYM = {ast.LtE: "<=", ast.Lt: "<", ast.GtE: ">=", ast.Gt: ">", ast.NotEq: "!=", ast.Eq: "=="}
            FLIP = {"<=": ">=", "<": ">", ">=": "<=", ">": "<", "!=": "!=", "==": "=="}
            IMPLIES = {">": {">", ">=", "!="}, ">=": {">="}, "<": {"<", "<=", "!="}, "<=": {"<="}, "==": {"==", ">=", "<="}, "!=": {"!="}}
            exit_op = NEG.get(type(lim.ops[0])) if len(lim.ops) == 1 else None     # counter <exit_op> bound holds when the limit ends the loop
            others = {dotted(x) for c in ast.walk(lp.test) if isinstance(c, ast.Compare) and c is not lim for x in ast.walk(c) if isinstance(x, ast.Attribute) and dotted(x)}
            for st in after:
                if isinstance(st, ast.If) and any(isinstance(w, ast.Raise) or (isinstance(w, ast.Call) and (dotted(w.func) or "").split(".")[-1] == "warn") for w in ast.walk(st)):
                    t = st.test
                    if isinstance(t, ast.Compare) and len(t.ops) == 1 and {norm_src(t.left), norm_src(t.comparators[0])} == {counter, bound}:
                        g = SYM.get(type(t.ops[0]))
                        if norm_src(t.left) != counter and g:
                            g = FLIP[g]
                        if exit_op is None or g in IMPLIES.get(exit_op, ()):
                            loud = True
                        else:
                            unreachable = (st, g)
                    elif counter in norm_src(t) and bound in norm_src(t):
                        loud = True     # compound test on the counter: not judged further
                    elif any(o in norm_src(t) for o in others):
                        loud = True     # "still inside the requested range" - the complementary way to notice the cut
                if isinstance(st, ast.Assert) and counter in norm_src(st.test):
                    loud = True
            if unreachable is not None and not loud:
                st, g = unreachable
                rep.bad("C23.R8", C, st.test, f"the loop ends through its step limit when `{counter} {exit_op} {bound}`, but the report after the loop is guarded by `{norm_src(st.test)}`, which "
                        f"that does not imply (the loop condition `{norm_src(lim)}` and the guard disagree by one): a run cut off by the limit returns silently", f"{ST}:{st.lineno}")
                continue
            if loud:
                rep.ok("C23.R8", C, f"loop bounded by `{norm_src(lim)}`: reaching the limit is reported after the loop")
            else:
                rep.bad("C23.R8", C, lim, f"the loop ends silently when `{norm_src(lim)}` becomes false: a run that is cut off by the step limit returns its points like a complete run "
                        "(no warning, no error), although it stopped before the end of the requested load range", f"{ST}:{lp.lineno}")
    if n < 1:
        raise AnalysisError(f"{ST}: no step-limited loop found in the static solvers")


def riks_first_point(ctx):
    """The first returned point of Riks must be a point the solver SOLVED, with state and load parameter taken from one vector:
     (a) Riks.__init__ leaves in self.xk the solution `sol.x` of an fsolve whose residual is the static residual at the very load value that is
         concatenated to it (the raw initial state (q0, la_c0, ...) is an equilibrium only if the user happens to start in one);
     (b) Riks.solve takes the first rows of ALL result lists from self.xk (components and load of the same vector)."""
    rep = ctx.rep
    fn = ctx.repo.get(ST, "Riks.solve")
    init = ctx.repo.get(ST, "Riks.__init__")
    C = f"{ST}:Riks.solve"
    Ci = f"{ST}:Riks.__init__"
    xks = [n for n in ast.walk(init) if isinstance(n, ast.Assign) and norm_src(n.targets[0]) == "self.xk" and isinstance(n.value, ast.Call)
           and (dotted(n.value.func) or "").endswith("concatenate") and n.value.args and isinstance(n.value.args[0], (ast.Tuple, ast.List))]
    if not xks:
        raise AnalysisError(f"{ST}:Riks.__init__: `self.xk = np.concatenate((...))` not found")
    xk = max(xks, key=lambda n: n.lineno)

    def scalar(e):
        if isinstance(e, ast.Call) and e.args:
            e = e.args[0]
        if isinstance(e, (ast.List, ast.Tuple)) and len(e.elts) == 1:
            e = e.elts[0]
        s_ = norm_src(e)
        return "0" if s_ in ("0", "0.0") else s_
    elts = xk.value.args[0].elts
    comps = [norm_src(e) for e in elts]
    want = scalar(elts[-1])
    # (a) provenance of the state part
    state = elts[:-1]
    solved = None
    if len(state) == 1 and isinstance(state[0], ast.Attribute) and state[0].attr == "x" and isinstance(state[0].value, ast.Name):
        var = state[0].value.id
        defs = [n for n in ast.walk(init) if isinstance(n, ast.Assign) and norm_src(n.targets[0]) == var and n.lineno < xk.lineno
                and isinstance(n.value, ast.Call) and (dotted(n.value.func) or "").split(".")[-1] == "fsolve"]
        if defs:
            call = max(defs, key=lambda n: n.lineno).value
            f = call.args[0] if call.args else None
            body = None
            if isinstance(f, ast.Lambda):
                body = f.body
            elif isinstance(f, ast.Name):
                d = [n for n in ast.walk(init) if isinstance(n, ast.FunctionDef) and n.name == f.id]
                body = d[0] if d else None
            loads = set()
            if body is not None:
                for w in ast.walk(body):
                    if isinstance(w, ast.Call) and (dotted(w.func) or "").endswith("concatenate") and w.args and isinstance(w.args[0], (ast.Tuple, ast.List)) and len(w.args[0].elts) == 2:
                        loads.add(scalar(w.args[0].elts[1]))
                uses_R = any(isinstance(w, ast.Call) and norm_src(w.func) == "self.R" for w in ast.walk(body))
            else:
                uses_R = False
            solved = (loads, uses_R)
    if solved is None:
        rep.bad("C23.R7", Ci, xk, f"the first point of the path, self.xk = ({', '.join(comps)}), is the raw initial state: it is returned as an equilibrium of load {want} "
                "without ever having been solved, so it violates equilibrium by the whole residual of the initial state at that load", f"{ST}:{xk.lineno}")
    elif not solved[1] or solved[0] != {want}:
        rep.bad("C23.R7", Ci, xk, f"self.xk pairs the solution of a solve at load {sorted(solved[0]) or '?'} with the load parameter {want}", f"{ST}:{xk.lineno}")
    else:
        rep.ok("C23.R7", Ci, f"self.xk = (solution of the static residual at load {want}; {want})")
    # (b) first rows of the result lists
    first = {}
    for n in fn.body:
        if isinstance(n, ast.Assign) and isinstance(n.value, ast.List) and len(n.value.elts) == 1 and isinstance(n.targets[0], ast.Name):
            first[n.targets[0].id] = n.value.elts[0]
    ret = [n for n in ast.walk(fn) if isinstance(n, ast.Return) and isinstance(n.value, ast.Call) and dotted(n.value.func) == "Solution"]
    if not ret:
        raise AnalysisError(f"{C}: return Solution(...) not found")
    tkw = next((k.value for k in ret[0].value.keywords if k.arg == "t"), None)
    tname = next((w.id for w in ast.walk(tkw) if isinstance(w, ast.Name) and w.id in first), None) if tkw is not None else None
    # components of self.xk: a tuple assignment from np.array_split(self.xk[.copy()], self.split_unknowns)
    split = [n for n in fn.body if isinstance(n, ast.Assign) and isinstance(n.targets[0], ast.Tuple) and isinstance(n.value, ast.Call)
             and (dotted(n.value.func) or "").endswith("array_split") and n.value.args and norm_src(n.value.args[0]) in ("self.xk", "self.xk.copy()")]
    if tname is None:
        rep.ok("C23.R7", C, "initial rows are not in a form the analysis reads (no verdict)", verdict="unknown", trivial=True)
        return
    got = norm_src(first[tname])
    if split:
        names = [e.id for e in split[0].targets[0].elts if isinstance(e, ast.Name)]
        others_ok = all(norm_src(first[k]) in names[:-1] for k in first if k != tname)
        load_ok = got in (f"{names[-1]}[0]", f"float({names[-1]}[0])", f"{names[-1]}.item()", "self.xk[-1]")
    else:
        names = comps
        others_ok = all(norm_src(first[k]) in comps for k in first if k != tname)
        load_ok = got in ("self.xk[-1]", "float(self.xk[-1])") or scalar(first[tname]) == want
    if others_ok and load_ok:
        rep.ok("C23.R7", C, f"first rows of all result lists are the components and the load parameter of self.xk")
    elif not others_ok:
        bad = next(k for k in first if k != tname and norm_src(first[k]) not in names)
        rep.bad("C23.R7", C, first[bad], f"the first row of `{bad}` is `{norm_src(first[bad])}`, not a component of the solved first point self.xk: the first returned point is not "
                "the equilibrium that was computed for it", f"{ST}:{first[bad].lineno}")
    else:
        rep.bad("C23.R7", C, first[tname], f"the first returned point pairs the state of self.xk, whose load parameter is {want}, with the load parameter "
                f"`{got}`: the returned point violates equilibrium by the whole load difference", f"{ST}:{first[tname].lineno}")


def newton_rows(ctx, rule="C23.R6"):
    rep = ctx.rep
    fn = ctx.repo.get(ST, "Newton.solve")
    init = ctx.repo.get(ST, "Newton.__init__")
    C = f"{ST}:Newton.solve"
    loops = [n for n in ast.walk(fn) if isinstance(n, ast.For)
             and any(isinstance(c, ast.Call) and dotted(c.func) == "fsolve" for c in ast.walk(n))]
    if len(loops) != 1 or not isinstance(loops[0].target, ast.Name):
        raise AnalysisError(f"{C}: the load-step loop around fsolve was not found")
    loop = loops[0]
    var = loop.target.id
    # -- a. the loop covers rows 0 .. nt-1
    rngs = _resolve_ranges(fn, loop.iter)
    if not rngs:
        rep.bad(rule, C, loop.iter, "the load-step loop does not iterate over a range(...) the analysis can bound: which load steps are solved is unknown", f"{ST}:{loop.lineno}")
    for r in rngs or []:
        a = r.args
        start = ast.Constant(0) if len(a) == 1 else a[0]
        stop = a[0] if len(a) == 1 else a[1]
        step_ok = len(a) < 3 or (isinstance(a[2], ast.Constant) and a[2].value == 1)
        if not (isinstance(start, ast.Constant) and start.value == 0):
            rep.bad(rule, C, r, f"the load-step loop starts at `{norm_src(start)}`, but the returned rows start at row 0: the first returned load step(s) are never solved "
                    "(they are the raw initial guess, not an equilibrium, and step_callback is not applied to them)", f"{ST}:{r.lineno}")
        elif norm_src(stop) not in ("self.nt", "len(self.load_steps)") or not step_ok:
            rep.bad(rule, C, r, f"the load-step loop runs to `{norm_src(stop)}` (step 1 expected up to self.nt): returned rows beyond it are not solved", f"{ST}:{r.lineno}")
        else:
            rep.ok(rule, C, f"load-step loop: {norm_src(r)} covers rows 0 .. self.nt - 1")
    nt_ok = any(isinstance(n, ast.Assign) and norm_src(n.targets[0]) == "self.nt" and norm_src(n.value) == "len(self.load_steps)" for n in ast.walk(init))
    x_ok = any(isinstance(n, ast.Assign) and norm_src(n.targets[0]) == "self.x" and isinstance(n.value, ast.Call) and n.value.args
               and isinstance(n.value.args[0], ast.Tuple) and norm_src(n.value.args[0].elts[0]) == "self.nt" for n in ast.walk(init))
    if nt_ok and x_ok:
        rep.ok(rule, f"{ST}:Newton.__init__", "self.nt = len(self.load_steps) and self.x has self.nt rows")
    else:
        rep.bad(rule, f"{ST}:Newton.__init__", "self.nt / self.x", "self.nt is not len(self.load_steps) or self.x does not have self.nt rows: loop range, load levels and stored rows no longer "
                "index the same set", f"{ST}:{init.lineno}")
    # -- b. row i is the fsolve result at load level load_steps[i]
    solves = [n for n in loop.body if isinstance(n, ast.Assign) and isinstance(n.value, ast.Call) and dotted(n.value.func) == "fsolve"]
    if len(solves) != 1:
        raise AnalysisError(f"{C}: expected one fsolve call at the top level of the load-step loop")
    sv = solves[0]
    solname = norm_src(sv.targets[0])
    x0 = norm_src(sv.value.args[1]) if len(sv.value.args) > 1 else ""
    fa = {k.arg: norm_src(k.value) for k in sv.value.keywords}
    lvl = f"(self.load_steps[{var}],)"
    if x0 == f"self.x[{var}]" and fa.get("fun_args") == lvl and fa.get("jac_args", lvl) == lvl:
        rep.ok(rule, C, f"row {var} is solved at load level self.load_steps[{var}] starting from self.x[{var}]")
    else:
        rep.bad(rule, C, sv, f"the solve of row `{var}` does not use self.x[{var}] with load level self.load_steps[{var}] for residual and Jacobian alike "
                f"(initial guess {x0}, fun_args {fa.get('fun_args')}, jac_args {fa.get('jac_args')})", f"{ST}:{sv.lineno}")
    wr = [n for n in loop.body if isinstance(n, ast.Assign) and norm_src(n.targets[0]) == f"self.x[{var}]" and norm_src(n.value) == f"{solname}.x"]
    if wr and loop.body.index(wr[0]) > loop.body.index(sv):
        rep.ok(rule, C, f"self.x[{var}] = {solname}.x on every iteration (top level of the loop, after the solve)")
    else:
        rep.bad(rule, C, sv, f"the result of the solve is not written to self.x[{var}] on every iteration", f"{ST}:{sv.lineno}")
    # -- c. returned slices (a return may delegate to a helper method that builds the Solution from a row count)
    # a `break` out of the load-step loop on the non-convergence branch reaches the final return with an UNSOLVED row `var`
    from ..model import guards_of
    fail_breaks = [b for b in ast.walk(loop) if isinstance(b, ast.Break) and any(".success" in t and (t.startswith("not ") or not pol) for t, pol in guards_of(b, fn))]
    for call, in_loop, subst, where in solution_sites(ctx, fn, loop):
        if not in_loop and fail_breaks:
            his = set()
            for sub in [w for w in ast.walk(call) if isinstance(w, ast.Subscript) and norm_src(w.value) in ("self.x", "self.load_steps")]:
                sl = sub.slice.elts[0] if isinstance(sub.slice, ast.Tuple) else sub.slice
                if isinstance(sl, ast.Slice) and sl.upper is not None:
                    his.add(subst(norm_src(sl.upper)))
            if f"{var} + 1" in his or not his:
                rep.bad(rule, C, fail_breaks[0], f"the loop is left by `break` when load step `{var}` did not converge (line {fail_breaks[0].lineno}) and the return after the loop{where} selects rows "
                        f"[0:{var} + 1]: the unconverged iterate of step `{var}`, already written to self.x[{var}], is returned as a load step (only rows [0:{var}] are solved)",
                        f"{ST}:{fail_breaks[0].lineno}")
                continue
        want_hi = var if in_loop else f"{var} + 1"
        alt_hi = None if in_loop else "self.nt"  # after the complete loop i + 1 == self.nt (a. and the loop bounds)
        for sub in [w for w in ast.walk(call) if isinstance(w, ast.Subscript) and norm_src(w.value) in ("self.x", "self.load_steps")]:
            sl = sub.slice.elts[0] if isinstance(sub.slice, ast.Tuple) else sub.slice
            if not isinstance(sl, ast.Slice):
                rep.bad(rule, C, sub, "returned rows are not selected by a slice", f"{ST}:{sub.lineno}")
                continue
            lo = None if sl.lower is None else subst(norm_src(sl.lower))
            hi = None if sl.upper is None else subst(norm_src(sl.upper))
            if lo in (None, "0") and hi in (want_hi, alt_hi) and hi is not None and sl.step is None:
                rep.ok(rule, C, f"{'early' if in_loop else 'final'} return{where}: {norm_src(sub)} = rows 0 .. {hi} - 1, all solved"
                       + ("" if not in_loop else " (the failed row is excluded)"))
            else:
                rep.bad(rule, C, sub, f"the {'early' if in_loop else 'final'} return{where} selects rows [{lo or 0}:{hi}] but the solved rows are [0:{want_hi}]"
                        + (" (the early return must drop the unconverged row)" if in_loop else ""), f"{ST}:{sub.lineno}")


def solution_sites(ctx, fn, loop):
    """[(Solution(...) call, inside the load-step loop?, substitution of helper parameters, label)] for every return of fn."""
    cls = ctx.repo.get(ST, "Newton")
    methods = {m.name: m for m in cls.body if isinstance(m, ast.FunctionDef)}
    out = []
    for ret in [n for n in ast.walk(fn) if isinstance(n, ast.Return) and isinstance(n.value, ast.Call)]:
        in_loop = any(ret is w for w in ast.walk(loop))
        call = ret.value
        d = dotted(call.func) or ""
        if d == "Solution":
            out.append((call, in_loop, lambda x: x, ""))
            continue
        if d.startswith("self."):
            name = d.split(".", 1)[1]
            helper = methods.get(name) or next((m for k, m in methods.items() if k.endswith(name.lstrip("_")) and name.startswith("__")), None)
            if helper is None:
                continue
            params = [a.arg for a in helper.args.args][1:]
            amap = {p: norm_src(a) for p, a in zip(params, call.args)}
            amap.update({k.arg: norm_src(k.value) for k in call.keywords if k.arg})
            for r2 in [n for n in ast.walk(helper) if isinstance(n, ast.Return) and isinstance(n.value, ast.Call) and dotted(n.value.func) == "Solution"]:
                out.append((r2.value, in_loop, (lambda m: (lambda x: m.get(x, x)))(amap), f" (through {d})"))
    if not out:
        raise AnalysisError(f"{ST}:Newton.solve: no return that builds a Solution was found")
    return out


MUTANTS = [
    dict(id="c23-m1", canary=True, what="Riks.R lacks the contact forces (original defect)", file=ST,
         old="        R[: self.split_residual[0]] = (\n            self.h + self.W_c @ la_c + self.W_g @ la_g + self.W_N @ la_N\n        )",
         new="        R[: self.split_residual[0]] = self.h + self.W_c @ la_c + self.W_g @ la_g", expect="C23.R1"),
    dict(id="c23-m2", canary=True, what="Newton.jac forgets the geometric stiffness of the compliance forces", file=ST,
         old="            self.system.h_q(t, q, self.u0)\n            + self.system.Wla_g_q(t, q, la_g)\n            + self.system.Wla_c_q(t, q, la_c)\n            + self.system.Wla_N_q(t, q, la_N)\n        )\n        g_q = self.system.g_q(t, q)\n        g_S_q",
         new="            self.system.h_q(t, q, self.u0)\n            + self.system.Wla_g_q(t, q, la_g)\n            + self.system.Wla_N_q(t, q, la_N)\n        )\n        g_q = self.system.g_q(t, q)\n        g_S_q", expect="C23.R1"),
    dict(id="c23-m3", what="Newton.fun drops the quaternion-norm row g_S", file=ST,
         old="        F[self.split_f[2] : self.split_f[3]] = self.system.g_S(t, q)\n", new="", expect="C23.R2"),
    dict(id="c23-m4", what="Newton.fun evaluates the constraints at the previous load level", file=ST,
         old="        F[self.split_f[0] : self.split_f[1]] = self.system.g(t, q)", new="        F[self.split_f[0] : self.split_f[1]] = self.system.g(0.0, q)", expect="C23.R3"),
    dict(id="c23-m5", what="Newton.solve prints instead of warning at the early stop", file=ST,
         old="                warnings.warn(\n                    f\"Newton-Raphson method not converged at load step", new="                print(\n                    f\"Newton-Raphson method not converged at load step", expect="C23.R4"),
    dict(id="c23-m6", what="Riks.J drops the W_g column", file=ST,
         old="        return bmat([[      K, self.W_c, self.W_g,   self.W_N, Ru_t[:, None]], ", new="        return bmat([[      K, self.W_c, None,   self.W_N, Ru_t[:, None]], ", expect="C23.R1"),
]
MUTANTS += [
    dict(id="c23-r5-orig", canary=True, what="Riks: secant predictor added in place to the array whose views were stored (original defect)", file=ST,
         old="                xk1 = xk1 + dx\n", new="                xk1 += dx\n", expect="C23.R5"),
    dict(id="c23-r5-2", what="Riks: predictor written through a slice of the stored buffer", file=ST,
         old="                xk1 = xk1 + dx\n", new="                xk1[:] = xk1 + dx\n", expect="C23.R5"),
]
MUTANTS += [
    dict(id="c23-r6-seed", canary=True, what="[seeded by sub-agent] Newton.solve skips load step 0 (loop from 1, warm start moved to the top)", file=ST,
         edits=[(ST, "        pbar = range(0, self.nt)\n", "        pbar = range(1, self.nt)\n"),
                (ST, "        for i in pbar:\n            sol = fsolve(\n                self.fun,\n                self.x[i],", "        for i in pbar:\n            self.x[i] = self.x[i - 1]\n            sol = fsolve(\n                self.fun,\n                self.x[i],")],
         expect="C23.R6"),
    dict(id="c23-r6-2", what="Newton.solve solves row i at the previous load level", file=ST,
         old="                fun_args=(self.load_steps[i],),\n                jac_args=(self.load_steps[i],),", new="                fun_args=(self.load_steps[i - 1],),\n                jac_args=(self.load_steps[i - 1],),", expect="C23.R6"),
    dict(id="c23-r6-3", what="Newton.solve's early return includes the failed load step again", file=ST,
         old="                    q=self.x[:i, : self.split_x[0]],", new="                    q=self.x[: i + 1, : self.split_x[0]],", expect=["C23.R6", "C23.R4"]),
]
MUTANTS += [
    dict(id="c23-r7-orig", canary=True, what="Riks: first returned point labelled with la_arc0 (original defect)", file=ST,
         old="        la_arc = [la_arc0[0]]\n", new="        la_arc = [self.la_arc0]\n", expect="C23.R7"),
    dict(id="c23-r7-f48", canary=True, what="Riks returns the raw initial state as first point (original defect F48)", file=ST,
         edits=[(ST, "        self.xk = np.concatenate((sol.x, [0.0]))\n", "        pass\n"),
                (ST, "        q = [q0]\n        la_c = [la_c0]\n        la_g = [la_g0]\n        la_N = [la_N0]\n        la_arc = [la_arc0[0]]\n",
                 "        q = [self.q0]\n        la_c = [self.la_c0]\n        la_g = [self.la_g0]\n        la_N = [self.la_N0]\n        la_arc = [self.xk[-1]]\n")],
         expect="C23.R7"),
    dict(id="c23-r7-3", what="Riks: first rows taken from the raw initial state although xk was solved", file=ST,
         old="        q = [q0]\n", new="        q = [self.q0]\n", expect="C23.R7"),
]
MUTANTS += [
    dict(id="c23-r8-seed", canary=True, what="[seeded by sub-agent] Riks: loop bound tightened to `<` while the report stays guarded by `>`", file=ST,
         old="            and load_step <= self.max_load_steps\n", new="            and load_step < self.max_load_steps\n", expect="C23.R8"),
    dict(id="c23-r8-orig", canary=True, what="Riks returns silently when the step limit cuts the run (original defect)", file=ST,
         old="        if load_step > self.max_load_steps:\n            warnings.warn(", new="        if False:\n            warnings.warn(", expect="C23.R8"),
]
MUTANTS += [
    dict(id="c23-r9-seed", canary=True, what="[seeded by sub-agent] Riks: the solve of the zero-load first point loses options=options", file=ST,
         old="            jac=lambda x: self.J(np.concatenate((x, [0.0])))[:-1, :-1],\n            options=options,\n", new="            jac=lambda x: self.J(np.concatenate((x, [0.0])))[:-1, :-1],\n", expect="C23.R9"),
]
MUTANTS += [
    dict(id="c23-r6-break", canary=True, what="[seeded by sub-agent] Newton: the failure branch breaks and the single return after the loop selects rows [: i + 1]", file=ST,
         edits=[(ST, "                return Solution(\n                    system=self.system,\n                    t=self.load_steps[:i],\n                    q=self.x[:i, : self.split_x[0]],\n                    u=np.zeros((i, self.nu)),\n                    la_g=self.x[:i, self.split_x[0] : self.split_x[1]],\n                    la_c=self.x[:i, self.split_x[1] : self.split_x[2]],\n                    la_N=self.x[:i, self.split_x[2] :],\n                )\n", "                break\n"),
                (ST, "            t=self.load_steps,\n", "            t=self.load_steps[: i + 1],\n")], expect=["C23.R6", "C23.R4"]),
]
NEUTRAL = [
    dict(id="c23-n-r8", canary=True, what="Riks: loop bound `<` and report guarded by `>=`", file=ST,
         edits=[(ST, "            and load_step <= self.max_load_steps\n", "            and load_step < self.max_load_steps\n"),
                (ST, "        if load_step > self.max_load_steps:\n", "        if load_step >= self.max_load_steps:\n")]),
    dict(id="c23-n4", what="Riks raises instead of warning when the step limit cuts the run", file=ST,
         old="        if load_step > self.max_load_steps:\n            warnings.warn(", new="        if load_step > self.max_load_steps:\n            raise RuntimeError(\"maximum number of load steps reached\")\n        if False:\n            warnings.warn("),
    dict(id="c23-n3", what="Riks: first load parameter written as the constant of xk", file=ST,
         old="        la_arc = [la_arc0[0]]\n", new="        la_arc = [self.xk[-1]]\n"),
    dict(id="c23-n2", what="Newton.solve: range(self.nt) instead of range(0, self.nt)", file=ST,
         old="        pbar = range(0, self.nt)\n", new="        pbar = range(self.nt)\n"),
    dict(id="c23-n1", canary=True, what="Riks stores copies and updates the predictor in place", file=ST,
         old="            q.append(q_)\n            la_c.append(la_c_)\n            la_g.append(la_g_)\n            la_N.append(la_N_)\n",
         new="            q.append(q_.copy())\n            la_c.append(la_c_.copy())\n            la_g.append(la_g_.copy())\n            la_N.append(la_N_.copy())\n"),
]

MUTANTS += [
    dict(id="c23-r10-seed", canary=True, what="[seeded by sub-agent] Moment.h 'harmonised with B_Force': A_IB @ moment instead of moment @ A_IB (transposed change of basis of an I-basis datum)", file='cardillo/forces/moment.py',
         old="        return (self.moment(t) @ self.A_IB(t, q)) @ self.B_J_R(t, q)\n", new="        return (self.A_IB(t, q) @ self.moment(t)) @ self.B_J_R(t, q)\n", expect="C23.R10"),
]
NEUTRAL += [
    dict(id="c23-n-r10", canary=True, what="Moment.h written with the explicit transpose A_IB.T @ moment", file='cardillo/forces/moment.py',
         old="        return (self.moment(t) @ self.A_IB(t, q)) @ self.B_J_R(t, q)\n", new="        return (self.A_IB(t, q).T @ self.moment(t)) @ self.B_J_R(t, q)\n"),
]

MUTANTS += [
    dict(id="c23-r11-seed", canary=True, what="[seeded by sub-agent] Newton evaluates the system with system.u0 instead of a zero velocity vector", file='cardillo/solver/statics.py',
         old="        self.u0 = np.zeros(system.nu)  # zero velocities as system is static\n", new="        self.u0 = system.u0\n", expect="C23.R11"),
]

MUTANTS += [
    dict(id="c23-r12-seed", canary=True, what="[seeded by sub-agent] Riks clips the load level of the converged point to la_arc_span 'for the progress bar' and stores the clipped value", file='cardillo/solver/statics.py',
         old='            la_arc.append(la_arc_[0])\n', new='            la_arc_ = np.clip(la_arc_, self.la_arc_span[0], self.la_arc_span[1])\n            la_arc.append(la_arc_[0])\n', expect="C23.R12"),
]
