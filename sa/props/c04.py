"""C04  Rigid body, point mass and frame kinematics are self-consistent.

Structural clauses decided (cardillo/discrete/{rigid_body,point_mass,frame}.py):
 R1 chain-rule coverage   every stated q/u-derivative (q_dot_q/q_dot_u, r_OP_q, v_P_q, a_P_q/a_P_u, J_P/J_P_q, kappa_P_q/_u,
                          A_IB_q, h_u, g_S_q, ...) references the companions of everything its primal evaluates (engine K5)
 R2 time chain            Frame: v_P / B_Omega evaluate the first time derivatives of everything r_OP / A_IB evaluate, a_P / B_Psi the
                          second ones (r_OP__ -> r_OP_t__ -> r_OP_tt__, A_IB__ -> A_IB_t__ -> A_IB_tt__)
 R3 offset dependence     within one class: if the position of a body point depends on the body-fixed offset B_r_CP through a
                          state- or time-dependent orientation, then v_P, a_P and kappa_P depend on B_r_CP too, and so does every
                          non-trivial q/u-derivative of a quantity that does (static non-dependence is sound: no data path, no
                          dependence)
 R4 state access          RigidBody: translational parts use q[:3]/u[:3], rotational parts q[3:]/u[3:]; the kinematic equation and
                          its derivatives use the non-normalising inverse tangent map consistently (q_dot, q_dot_q, q_dot_u)
 R5 energy/mass           a class that reports E_kin builds it from the same mass data as M
"""
from __future__ import annotations

import ast
import re

from ..core import AnalysisError, dotted, norm_src
from .. import deriv, protocol

EXPLANATION = ("K5 coverage over RigidBody/PointMass/Frame, Frame's prescribed-motion time chain, parameter-liveness "
               "comparison of B_r_CP across the point-kinematics family, slice discipline of q/u in RigidBody.")
NOT_DECIDED = ("signs and coefficients, conservation of the quaternion length by the kinematic equation, zero gyroscopic power, "
               "positive definiteness of M (value facts).")
ASSUMPTIONS = ["q = (r, p) with r = q[:3], p = q[3:]; u = (v, omega) with v = u[:3], omega = u[3:] for RigidBody"]
BLIND_SPOTS = ["a wrong cross-product order or sign in a_P / kappa_P"]
FILES = {"RigidBody": "cardillo/discrete/rigid_body.py", "PointMass": "cardillo/discrete/point_mass.py", "Frame": "cardillo/discrete/frame.py"}
POINT = ["r_OP", "v_P", "a_P", "kappa_P", "J_P"]


def _reads(fn, name):
    return any(isinstance(n, ast.Name) and n.id == name and isinstance(n.ctx, ast.Load) for st in fn.body for n in ast.walk(st))


def _trivial(fn):
    """returns a constant array (zeros / empty reshape / eye): no self.method call, parameters only used for dtype."""
    body = [s for s in fn.body if not (isinstance(s, ast.Expr) and isinstance(s.value, ast.Constant))]
    if len(body) != 1 or not isinstance(body[0], ast.Return) or body[0].value is None:
        return False
    v = body[0].value
    params = {a.arg for a in fn.args.args[1:]}
    for n in ast.walk(v):
        if isinstance(n, ast.Call) and isinstance(n.func, ast.Attribute) and dotted(n.func.value) == "self":
            return False
        if isinstance(n, ast.Name) and n.id in params:
            par = getattr(n, "_parent", None)
            is_dtype = isinstance(par, ast.Attribute) and par.attr == "dtype"
            is_ct = isinstance(par, ast.Call) and (dotted(par.func) or "").endswith("common_type")
            if not (is_dtype or is_ct):
                return False
    return True


def kinetic_energy_bases(ctx, rule="C04.R11"):
    """M = diag(m I, B_Theta_C) acts on u = (I_v_C, B_Omega): '1/2 u^T M u wherever a kinetic energy is reported' means the rotational part is
    B_Omega . B_Theta_C B_Omega.  An angular velocity rotated into the inertial basis (as the export does for display) contracted with the
    body-fixed tensor is exact for a spherical tensor or the identity orientation only."""
    rep = ctx.rep
    n = 0
    for cname, rel in FILES.items():
        mod = ctx.repo.modules.get(rel)
        if mod is None:
            continue
        for cls in [c for c in ast.walk(mod.tree) if isinstance(c, ast.ClassDef)]:
            fn = next((f for f in cls.body if isinstance(f, ast.FunctionDef) and f.name == "E_kin"), None)
            if fn is None:
                continue
            C = f"{rel}:{cls.name}.E_kin"
            binds = {w.targets[0].id: w.value for w in ast.walk(fn) if isinstance(w, ast.Assign) and len(w.targets) == 1 and isinstance(w.targets[0], ast.Name)}

            def basis(e, depth=0):
                if depth > 6:
                    return None
                if isinstance(e, ast.Name) and e.id in binds:
                    return basis(binds[e.id], depth + 1)
                if isinstance(e, ast.Subscript) and norm_src(e).replace(" ", "") == "u[3:]":
                    return "B"
                if isinstance(e, ast.Call) and isinstance(e.func, ast.Attribute) and dotted(e.func.value) == "self":
                    if e.func.attr.startswith("B_"):
                        return "B"
                    if e.func.attr in ("Omega", "I_Omega"):
                        return "I"
                if isinstance(e, ast.BinOp) and isinstance(e.op, ast.MatMult):
                    L = e.left
                    if isinstance(L, ast.Call) and isinstance(L.func, ast.Attribute) and L.func.attr == "A_IB" and basis(e.right, depth + 1) == "B":
                        return "I"
                    if isinstance(L, ast.Attribute) and L.attr == "T" and isinstance(L.value, ast.Call) and isinstance(L.value.func, ast.Attribute) and L.value.func.attr == "A_IB" \
                            and basis(e.right, depth + 1) == "I":
                        return "B"
                return None
            for w in ast.walk(fn):
                # x @ self.B_Theta_C @ y   (left-assoc: (x @ Theta) @ y)
                if isinstance(w, ast.BinOp) and isinstance(w.op, ast.MatMult) and isinstance(w.left, ast.BinOp) and isinstance(w.left.op, ast.MatMult) \
                        and isinstance(w.left.right, ast.Attribute) and dotted(w.left.right.value) == "self" and w.left.right.attr.startswith("B_Theta"):
                    n += 1
                    bl, br = basis(w.left.left), basis(w.right)
                    if "I" in (bl, br):
                        rep.bad(rule, C, w, f"`{norm_src(w)[:70]}` contracts the body-fixed tensor self.{w.left.right.attr} with an angular velocity given in the inertial basis "
                                f"(`{norm_src(w.right)}` = {norm_src(binds.get(getattr(w.right, 'id', ''), w.right))[:50]}): the reported kinetic energy is not 1/2 u^T M u, depends on the orientation and is "
                                "not conserved for a torque-free body unless the tensor is spherical", f"{rel}:{w.lineno}")
                    elif bl == br == "B":
                        rep.ok(rule, C, f"`{norm_src(w)[:60]}`: body-fixed tensor with body-fixed angular velocity")
                    else:
                        rep.ok(rule, C, f"`{norm_src(w)[:60]}`: bases not derivable (no verdict)", verdict="unknown")
    rep.ok(rule, "cardillo/discrete", f"{n} quadratic forms with the body-fixed inertia tensor in E_kin methods", trivial=True)


def velocity_derivatives_exact(ctx, rule="C04.R10"):
    """K19 on RigidBody's point kinematics: v_P, a_P, kappa_P are polynomials in cross products of u[:3], u[3:], u_dot[3:], B_r_CP behind a
    common rotation A_IB(t, q) that does not depend on u.  Their stated u-derivatives (J_P, a_P_u, kappa_P_u) are 3 x nu buffers with a
    translational block [:, :3] and a rotational block [:, 3:].  For each block the matrix expression applied to a direction d must be the
    directional derivative of the primal in that slice of u - as functions of the vectors, with exact coefficients, modulo vector identities
    (BAC-CAB etc.).  K5 / K10 see only which factors occur: the product-rule term (omega . r) I lost in seed C04-g has the same factors as
    the terms that were kept."""
    from .. import brackets as B
    rep = ctx.rep
    rel = FILES["RigidBody"]
    cls = ctx.repo.get(rel, "RigidBody")
    methods = {f.name: f for f in cls.body if isinstance(f, ast.FunctionDef)}
    SL = {"u[:3]": "v", "u[3:]": "w", "u_dot[:3]": "vd", "u_dot[3:]": "wd"}

    def atom(e):
        if isinstance(e, ast.Subscript) and re.sub(r"\s", "", norm_src(e)) in SL:
            return SL[re.sub(r"\s", "", norm_src(e))]
        if isinstance(e, ast.Name) and e.id == "B_r_CP":
            return "r"
        return None

    def rot(e):
        return isinstance(e, ast.Call) and isinstance(e.func, ast.Attribute) and e.func.attr == "A_IB" and norm_src(e.func.value) == "self"

    def resolve(name, depth=0):
        """follow `return self.<other>(...)` forwarding"""
        fn = methods.get(name)
        if fn is None or depth > 3:
            return fn
        body = [st for st in fn.body if not (isinstance(st, ast.Expr) and isinstance(st.value, ast.Constant))]
        if len(body) == 1 and isinstance(body[0], ast.Return) and isinstance(body[0].value, ast.Call) and isinstance(body[0].value.func, ast.Attribute) \
                and norm_src(body[0].value.func.value) == "self" and body[0].value.func.attr in methods:
            return resolve(body[0].value.func.attr, depth + 1)
        return fn
    n = 0
    for prim, der, wrt in (("v_P", "J_P", ("v", "w")), ("a_P", "a_P_u", ("v", "w")), ("kappa_P", "kappa_P_u", ("v", "w")), ("a_P", "J_P", ("vd", "wd"))):
        fp, fd = methods.get(prim), resolve(der)
        C = f"{rel}:RigidBody.{der}"
        if fp is None or fd is None:
            rep.ok(rule, C, f"{prim} / {der} not found (no verdict)", verdict="unknown", trivial=True)
            continue
        rets = [r for r in ast.walk(fp) if isinstance(r, ast.Return) and r.value is not None]
        pv = B.Bracketer(fp, atom, rot).ev(rets[0].value) if len(rets) == 1 else None
        if pv is None or pv[0] != "v":
            rep.ok(rule, C, f"{prim} is not a polynomial in cross products of the velocity slices (no verdict)", verdict="unknown", trivial=True)
            continue
        P = B.sdot(B.vatom("_c"), pv[1])
        br = B.Bracketer(fd, atom, rot)
        blocks = {}
        for st in ast.walk(fd):
            if isinstance(st, ast.Assign) and len(st.targets) == 1 and isinstance(st.targets[0], ast.Subscript) and isinstance(st.targets[0].value, ast.Name):
                k = re.sub(r"\s", "", norm_src(st.targets[0].slice)).strip("()")
                if k in (":,:3", ":,3:"):
                    blocks[k] = st
        for a, k in zip(wrt, (":,:3", ":,3:")):
            want = B.ddt(P, {a: B.vatom("_d")})
            st = blocks.get(k)
            if st is None:
                got = {}
            else:
                g = br.apply(st.value, B.vatom("_d"))
                if g is None:
                    rep.ok(rule, C, f"block [{k}] `{norm_src(st.value)[:50]}` is not a skew / outer / identity expression (no verdict)", verdict="unknown", trivial=True)
                    continue
                got = B.sdot(B.vatom("_c"), g)
            same, pt = B.same_function(want, got)
            if same:
                n += 1
                rep.ok(rule, C, f"block [{k}] of {der} is the derivative of {prim} with respect to {a} ({len(want)} bracket monomials)")
            else:
                D = B.sadd(got, want, -1)
                rep.bad(rule, C, st if st is not None else fd.name, f"block [{k}] of {der} is not the derivative of {prim} with respect to the slice `{[x for x, y in SL.items() if y == a][0]}`: "
                        f"c.(block d) - D_d(c.{prim}) = {B.show(D)[:220]} (c, d arbitrary vectors; w = u[3:], r = B_r_CP): a term of the product rule is missing or has the wrong factor",
                        f"{rel}:{(st or fd).lineno}")
    if n < 6:
        rep.ok(rule, f"{rel}:RigidBody", f"only {n} blocks decided", verdict="unknown", trivial=True)


def kinematic_map_degree(ctx, rule="C04.R13"):
    """q_dot(q, u) must turn the body with the angular velocity u reports, for EVERY quaternion (solvers hand over non-unit ones at
    intermediate stages).  The reported orientation A(P) is a function of the quaternion's direction only (degree d_A = 0 under P -> s P with
    the normalising Exp_SO3_quat), so d/dt A = A_P . P_dot with A_P of degree d_A - 1: the angular velocity of the reported frame is
    independent of |P| exactly when P_dot = T(P) omega has degree d_A + 1 in P.  The call sites fix the flags (normalize=False): the degree
    of T_SO3_inv_quat AS CALLED by q_dot / q_dot_u is d_A + 1, that of T_SO3_inv_quat_P AS CALLED by q_dot_q is d_A (K6)."""
    from fractions import Fraction as F
    from ..degrees import Interp, fmt
    rep = ctx.rep
    ROT, ALG = "cardillo/math/rotations.py", "cardillo/math/algebra.py"
    fns = {}
    for m in (ALG, ROT):
        for st in ctx.repo.module(m).tree.body:
            if isinstance(st, ast.FunctionDef):
                fns[st.name] = st
    files = [FILES["RigidBody"], "cardillo/rods/_base.py", "cardillo/rods/cosseratRod.py"]
    sites = {"Exp_SO3_quat": [], "T_SO3_inv_quat": [], "T_SO3_inv_quat_P": []}
    for rel in files:
        mod = ctx.repo.module(rel)
        for q, f in mod.defs().items():
            if not isinstance(f, ast.FunctionDef):
                continue
            for w in ast.walk(f):
                if isinstance(w, ast.Call) and isinstance(w.func, ast.Name) and w.func.id in sites and w.args:
                    flags = {k.arg: k.value.value for k in w.keywords if k.arg and isinstance(k.value, ast.Constant)}
                    if len(w.args) > 1 and isinstance(w.args[1], ast.Constant):
                        flags["normalize"] = w.args[1].value
                    flags.setdefault("normalize", True)
                    sites[w.func.id].append((rel, q, w, flags))
    if len(sites["Exp_SO3_quat"]) < 4 or len(sites["T_SO3_inv_quat"]) < 4 or len(sites["T_SO3_inv_quat_P"]) < 2:
        raise AnalysisError(f"{rule}: quaternion kernel call sites vanished ({ {k: len(v) for k, v in sites.items()} })")
    memo = {}
    def deg(name, flags):
        key = (name, tuple(sorted(flags.items())))
        if key not in memo:
            it = Interp(fns, module_consts={"eye3": F(0)})
            d = it.run(name, {"P": F(1)}, dict(flags))
            memo[key] = (d, bool(it.violations))
        return memo[key]
    dA = None
    for rel, q, w, flags in sites["Exp_SO3_quat"]:
        d, viol = deg("Exp_SO3_quat", flags)
        if viol or not isinstance(d, F):
            continue
        dA = d if dA is None else dA
        if d != dA:
            rep.note(f"{rule}: orientation maps of different degree ({fmt(d)} vs {fmt(dA)}); not decided")
            return
    if dA is None:
        rep.note(f"{rule}: the orientation map Exp_SO3_quat has no single scaling degree on this tree (C01.R1's question); the degree of the kinematic map is not decided")
        for name in ("T_SO3_inv_quat", "T_SO3_inv_quat_P"):
            for rel, q, w, flags in sites[name]:
                rep.ok(rule, f"{rel}:{q}", f"`{norm_src(w)[:60]}`: orientation map's degree not inferred (no verdict)", verdict="unknown", trivial=True)
        return
    for name, want, what in (("T_SO3_inv_quat", dA + 1, "P_dot = T(P) omega"), ("T_SO3_inv_quat_P", dA, "the derivative of T(P)")):
        for rel, q, w, flags in sites[name]:
            C = f"{rel}:{q}"
            d, viol = deg(name, flags)
            fl = ", ".join(f"{k}={v}" for k, v in sorted(flags.items()))
            if viol or not isinstance(d, F):
                rep.bad(rule, C, w, f"`{name}` as called here ({fl}) is not homogeneous in the quaternion any more (terms of different degree): {what} cannot have the degree "
                        f"{fmt(want)} that makes the angular velocity of the reported frame independent of |P|", f"{rel}:{w.lineno}")
            elif d != want:
                rep.bad(rule, C, w, f"`{name}` as called here ({fl}) scales with degree {fmt(d)} under P -> s P, but the reported orientation has degree {fmt(dA)}: {what} must have degree "
                        f"{fmt(want)}; with degree {fmt(d)} a body with a non-unit quaternion turns at omega |P|^{fmt(d - want)} while B_Omega reports omega (v_P, a_P, B_Psi are then not the time "
                        "derivatives of r_OP, v_P, B_Omega along q_dot)", f"{rel}:{w.lineno}")
            else:
                rep.ok(rule, C, f"`{name}({fl})` has degree {fmt(d)} = d_A {'+ 1' if want != dA else ''} (d_A = {fmt(dA)})")


def run(ctx):
    rep = ctx.rep
    rep.rule("C04.R13", "the kinematic map q_dot = T(P) omega has, with the flags of its call sites, the scaling degree in the quaternion that makes the reported frame turn with the reported angular velocity for non-unit quaternions too (degree of the orientation map + 1; K6)", 4)
    kinematic_map_degree(ctx)
    rep.rule("C04.R7", "dependence monotonicity (K13) over every primal/derivative pair of K5: a stated derivative reads no datum its primal does not read", 30)
    from .. import depmono as _dm
    _dm.check_k5_pairs(ctx, "C04.R7", ['RigidBody', 'PointMass', 'Frame'])
    rep.rule("C04.R8", "the callables a Frame is built from (check_time_derivatives) and the discrete bodies contain no closure that binds a loop variable late", 3)
    from .. import closures as _cl
    for rel_, mod_ in sorted(ctx.repo.modules.items()):
        if not (rel_ == "cardillo/utility/check_time_derivatives.py" or rel_.startswith("cardillo/discrete/")):
            continue
        for q_, fn_ in mod_.defs().items():
            if not isinstance(fn_, ast.FunctionDef):
                continue
            found_ = _cl.find(fn_)
            if found_:
                for clo_, loop_, late_ in found_:
                    rep.bad("C04.R8", f"{rel_}:{q_}", clo_, f"the closure `{norm_src(clo_)[:60]}` is created in a loop and reads {late_}, which the loop re-binds: when it is called "
                            "after the loop it sees the value of the last iteration (e.g. the first time derivative of a prescribed motion silently becomes the second one)",
                            f"{rel_}:{clo_.lineno}")
            elif any(isinstance(w_, (ast.Lambda,)) for w_ in ast.walk(fn_)):
                rep.ok("C04.R8", f"{rel_}:{q_}", "closures of this function bind no loop variable late")
    rep.rule("C04.R9", "memoised kinematics of the discrete bodies return fresh arrays; nobody in cardillo/discrete modifies a memoised result in place (K18)", 4)
    from .. import cachepurity as _cp
    _cp.report(ctx, "C04.R9", ("cardillo/discrete/",), floor_note=False)
    rep.rule("C04.R10", "RigidBody: the velocity derivatives J_P, a_P_u, kappa_P_u are the exact derivatives of v_P, a_P, kappa_P block by block (K19: bracket normal form, exact coefficients, modulo vector identities)", 6)
    velocity_derivatives_exact(ctx)
    rep.rule("C04.R1", "chain-rule coverage (K5) of the discrete bodies", 15)
    rep.rule("C04.R2", "Frame time chain", 4)
    rep.rule("C04.R3", "offset dependence of the point kinematics family", 10)
    rep.rule("C04.R4", "RigidBody state slices and kinematic-equation kernel", 8)
    rep.rule("C04.R12", "every memoised kinematic routine of the discrete bodies has its own cache object (two routines with one signature sharing a cache return each other's results)", 4)
    from . import c26 as _c26b
    _c26b.one_cache_per_method(ctx, "C04.R12", lambda rel: rel.startswith("cardillo/discrete/"))
    rep.rule("C04.R11", "a kinetic energy reported by a discrete body contracts the body-fixed inertia tensor with BODY-FIXED angular velocity components (K15 basis typing: A_IB @ B-vector is an I-vector)", 0)
    kinetic_energy_bases(ctx)
    rep.rule("C04.R5", "E_kin uses the mass data of M", 1)
    rep.rule("C04.R6", "RigidBody builds its rotation (and its q-derivative) with the normalising quaternion kernel: a rotation for any nonzero quaternion", 4)
    from .c11 import normalising_rule
    normalising_rule(ctx, "C04.R6", lambda rel: rel == "cardillo/discrete/rigid_body.py", 4)
    model = ctx.model
    for cname, rel in FILES.items():
        ci = model.cls(cname, rel)
        deriv.run_class(ctx, "C04.R1", ci, only=lambda p, d, dep: dep in ("q", "u"))
    # ---- R2 Frame
    fr = model.cls("Frame", FILES["Frame"])
    k5 = deriv.K5(ctx, fr)
    view = k5.view
    for primal, d1, d2 in (("r_OP", "v_P", "a_P"), ("A_IB", "B_Omega", "B_Psi")):
        for a, b in ((primal, d1), (d1, d2)):
            fa, fb = fr.methods.get(a), fr.methods.get(b)
            if fa is None or fb is None:
                raise AnalysisError(f"Frame.{a}/{b} vanished")
            atoms = {n.func.attr for n in ast.walk(fa) if isinstance(n, ast.Call) and isinstance(n.func, ast.Attribute) and dotted(n.func.value) == "self" and n.func.attr.endswith("__")}
            refs = {n.attr for n in ast.walk(fb) if isinstance(n, ast.Attribute) and dotted(n.value) == "self"}
            C = f"{FILES['Frame']}:Frame.{b}"
            nxt = {"r_OP__": "r_OP_t__", "r_OP_t__": "r_OP_tt__", "A_IB__": "A_IB_t__", "A_IB_t__": "A_IB_tt__"}
            miss = [nxt[x] for x in atoms if x in nxt and nxt[x] not in refs]
            if miss:
                rep.bad("C04.R2", C, f"d/dt of {a}", f"`{a}` evaluates {sorted(atoms)} but `{b}` never evaluates {miss}: it cannot be the time derivative of `{a}` for a moving frame",
                        f"{FILES['Frame']}:{fb.lineno}")
            else:
                rep.ok("C04.R2", C, f"d/dt {a}: {sorted(atoms)} -> {sorted(nxt[x] for x in atoms if x in nxt)}")
    # ---- R3
    for cname, rel in FILES.items():
        ci = model.cls(cname, rel)
        r = ci.methods.get("r_OP")
        if r is None or not _reads(r, "B_r_CP"):
            continue
        # orientation multiplying B_r_CP is a call (state/time dependent)?
        dyn = None
        for n in ast.walk(r):
            if isinstance(n, ast.BinOp) and isinstance(n.op, ast.MatMult) and norm_src(n.right) == "B_r_CP" and isinstance(n.left, ast.Call):
                dyn = n.left
        C0 = f"{rel}:{cname}"
        if dyn is None:
            rep.ok("C04.R3", C0 + ".r_OP", "offset enters with a constant orientation (no velocity/acceleration contribution)", trivial=True)
            continue
        q_dep = any(isinstance(a, ast.Name) and a.id == "q" for a in dyn.args)
        for m in ("v_P", "a_P", "kappa_P"):
            fn = ci.methods.get(m)
            if fn is None:
                continue
            C = f"{rel}:{cname}.{m}"
            if _reads(fn, "B_r_CP"):
                rep.ok("C04.R3", C, f"depends on B_r_CP like r_OP (orientation `{norm_src(dyn)}`)")
            else:
                rep.bad("C04.R3", C, fn.body[-1], f"`r_OP` moves the point with the offset through the time/state dependent orientation `{norm_src(dyn)}`, "
                        f"but `{m}` has no data path from B_r_CP: it is the {m} of the reference point, not of the body point", f"{rel}:{fn.lineno}")
        for p in POINT:
            pf = ci.methods.get(p)
            if pf is None or not _reads(pf, "B_r_CP"):
                continue
            for suf in ("_q", "_u"):
                d = ci.methods.get(p + suf)
                if d is None or _trivial(d):
                    continue
                C = f"{rel}:{cname}.{p}{suf}"
                if not q_dep and suf == "_q":
                    continue
                if _reads(d, "B_r_CP"):
                    rep.ok("C04.R3", C, f"depends on B_r_CP like {p}")
                else:
                    rep.bad("C04.R3", C, d.body[-1], f"`{p}` depends on the offset B_r_CP but its derivative `{p}{suf}` has no data path from it", f"{rel}:{d.lineno}")
    # ---- R4 RigidBody slices
    rb = model.cls("RigidBody", FILES["RigidBody"])
    kern = {}
    for m in ("q_dot", "q_dot_q", "q_dot_u"):
        fn = rb.methods.get(m)
        if fn is None:
            raise AnalysisError(f"RigidBody.{m} vanished")
        calls = [n for n in ast.walk(fn) if isinstance(n, ast.Call) and (dotted(n.func) or "").startswith("T_SO3_inv_quat")]
        C = f"{FILES['RigidBody']}:RigidBody.{m}"
        if not calls:
            rep.bad("C04.R4", C, fn.name, "the kinematic equation no longer uses the inverse tangent map of the quaternion", f"{FILES['RigidBody']}:{fn.lineno}")
            continue
        c = calls[0]
        norm_kw = {k.arg: norm_src(k.value) for k in c.keywords}.get("normalize", "default")
        arg = norm_src(c.args[0]) if c.args else ""
        kern[m] = (dotted(c.func), arg, norm_kw)
        if arg == "q[3:]":
            rep.ok("C04.R4", C, f"{norm_src(c)} on the quaternion part q[3:]")
        else:
            rep.bad("C04.R4", C, c, f"inverse tangent map evaluated on `{arg}` instead of the quaternion part q[3:]", f"{FILES['RigidBody']}:{c.lineno}")
    if len({v[2] for v in kern.values()}) == 1 and kern and kern.get("q_dot", ("",))[0] == "T_SO3_inv_quat" and kern.get("q_dot_u", ("",))[0] == "T_SO3_inv_quat" \
            and kern.get("q_dot_q", ("",))[0] == "T_SO3_inv_quat_P":
        rep.ok("C04.R4", f"{FILES['RigidBody']}:RigidBody.q_dot*", f"q_dot, q_dot_u use T_SO3_inv_quat and q_dot_q its derivative, all with normalize={list(kern.values())[0][2]}")
    else:
        rep.bad("C04.R4", f"{FILES['RigidBody']}:RigidBody.q_dot*", f"kernels {kern}", "q_dot, q_dot_q and q_dot_u do not use the same (non-)normalising inverse tangent map: the stated "
                "Jacobians are not the derivatives of the kinematic equation at non-unit quaternions", f"{FILES['RigidBody']}:{rb.node.lineno}")
    for m, fn in rb.methods.items():
        if m in ("__init__", "export", "step_callback", "pose2q", "q2pose"):
            continue
        for n in ast.walk(fn):
            if isinstance(n, ast.Subscript) and isinstance(n.value, ast.Name) and n.value.id in ("u", "u_dot") and isinstance(n.slice, ast.Slice):
                s = norm_src(n.slice)
                par = getattr(n, "_parent", None)
                if s not in (":3", "3:"):
                    rep.bad("C04.R4", f"{FILES['RigidBody']}:RigidBody.{m}", n, f"`{norm_src(n)}`: u = (v, omega) is split at index 3", f"{FILES['RigidBody']}:{n.lineno}")
                else:
                    rep.ok("C04.R4", f"{FILES['RigidBody']}:RigidBody.{m}", norm_src(n), trivial=True)
    # ---- R5
    pm = model.cls("PointMass", FILES["PointMass"])
    ek = pm.methods.get("E_kin")
    if ek is not None:
        reads = {n.attr for n in ast.walk(ek) if isinstance(n, ast.Attribute) and dotted(n.value) == "self"}
        init = pm.methods["__init__"]
        m_src = [norm_src(n.value) for n in ast.walk(init) if isinstance(n, ast.Assign) and any("__M" in norm_src(t) for t in n.targets)]
        C = f"{FILES['PointMass']}:PointMass.E_kin"
        if reads == {"mass"} and m_src and m_src[0].startswith("mass *"):
            rep.ok("C04.R5", C, f"E_kin reads self.mass; M = {m_src[0]}")
        else:
            rep.bad("C04.R5", C, ek.body[-1], f"E_kin reads {sorted(reads)} while M is built as {m_src}: kinetic energy is not 1/2 u^T M u", f"{FILES['PointMass']}:{ek.lineno}")


RB = FILES["RigidBody"]
FR = FILES["Frame"]
MUTANTS = [
    dict(id="c04-m1", canary=True, what="Frame.kappa_P ignores the offset (original defect)", file=FR,
         old="        return self.r_OP_tt__(t) + self.A_IB_tt__(t) @ B_r_CP\n\n    def kappa_P_q", new="        return self.r_OP_tt__(t)\n\n    def kappa_P_q", expect="C04.R3"),
    dict(id="c04-m2", canary=True, what="RigidBody.q_dot_u normalises while q_dot does not", file=RB,
         old="        q_dot_u[3:, 3:] = T_SO3_inv_quat(q[3:], normalize=False)", new="        q_dot_u[3:, 3:] = T_SO3_inv_quat(q[3:], normalize=True)", expect="C04.R4"),
    dict(id="c04-m3", what="RigidBody.r_OP_q forgets the rotation part", file=RB,
         old="        r_OP_q[:, :] += np.einsum(\"ijk,j->ik\", self.A_IB_q(t, q), B_r_CP)\n", new="", expect=["C04.R1", "C04.R3"]),
    dict(id="c04-m4", what="Frame.a_P uses the first derivative of the orientation", file=FR,
         old="        return self.r_OP_tt__(t) + self.A_IB_tt__(t) @ B_r_CP\n\n    def a_P_q", new="        return self.r_OP_tt__(t) + self.A_IB_t__(t) @ B_r_CP\n\n    def a_P_q", expect="C04.R2"),
    dict(id="c04-m5", what="RigidBody.h_u loses the dependence through B_Theta_C @ omega", file=RB,
         old="        h_u[3:, 3:] = ax2skew(self.B_Theta_C @ omega) - ax2skew(omega) @ self.B_Theta_C", new="        h_u[3:, 3:] = ax2skew(self.B_Theta_C @ omega)", expect=None, optional=True),
    dict(id="c04-m6", what="RigidBody.v_P forgets the lever arm", file=RB,
         old="        return u[:3] + self.A_IB(t, q) @ cross3(u[3:], B_r_CP)\n\n    def v_P_q", new="        return u[:3]\n\n    def v_P_q", expect="C04.R3"),
    dict(id="c04-m7", what="RigidBody.a_P_q ignores the offset", file=RB,
         old="            cross3(u_dot[3:], B_r_CP) + cross3(u[3:], cross3(u[3:], B_r_CP)),\n        )\n\n    def a_P_u",
         new="            cross3(u_dot[3:], u[3:]),\n        )\n\n    def a_P_u", expect="C04.R3"),
    dict(id="c04-m8", what="PointMass.E_kin uses unit mass", file=FILES["PointMass"],
         old="        return 0.5 * self.mass * np.dot(u, u)", new="        return 0.5 * np.dot(u, u)", expect="C04.R5"),
    dict(id="c04-m9", what="RigidBody.a_P takes omega from u[:3]", file=RB,
         old="            cross3(u_dot[3:], B_r_CP) + cross3(u[3:], cross3(u[3:], B_r_CP))\n        )\n\n    def a_P_q",
         new="            cross3(u_dot[3:], B_r_CP) + cross3(u[2:5], cross3(u[3:], B_r_CP))\n        )\n\n    def a_P_q", expect="C04.R4"),
]
MUTANTS = [m for m in MUTANTS if not m.get("optional")]
MUTANTS += [
    dict(id="c04-r6-seed", canary=True, what="[seeded by sub-agent] RigidBody.A_IB / A_IB_q without normalisation ('quaternions are normalised anyway')", file=RB,
         edits=[(RB, "        return Exp_SO3_quat(q[3:])\n", "        return Exp_SO3_quat(q[3:], normalize=False)\n"),
                (RB, "        A_IB_q[:, :, 3:] = Exp_SO3_quat_P(q[3:])\n", "        A_IB_q[:, :, 3:] = Exp_SO3_quat_P(q[3:], normalize=False)\n")],
         expect="C04.R6"),
]
CTD = "cardillo/utility/check_time_derivatives.py"
MUTANTS += [
    dict(id="c04-r8-seed", canary=True, what="[seeded by sub-agent] check_time_derivatives wraps constant derivatives inside a loop: the lambdas bind the loop variable late", file=CTD,
         old="        if f_t is not None:\n            if callable(f_t):\n                f_t__ = f_t\n            else:\n                f_t__ = lambda t: f_t\n",
         new="        consts = []\n        for df in (f_t, f_tt):\n            consts.append(lambda t: df)\n        if f_t is not None:\n            if callable(f_t):\n                f_t__ = f_t\n            else:\n                f_t__ = consts[0]\n", expect="C04.R8"),
]
NEUTRAL = [
    dict(id="c04-n-r6", what="RigidBody.A_IB spells the default out", file=RB,
         old="        return Exp_SO3_quat(q[3:])\n", new="        return Exp_SO3_quat(q[3:], normalize=True)\n"),
]
RBF_ = "cardillo/discrete/rigid_body.py"
MUTANTS += [
    dict(id="c04-r9-seed", canary=True, what="[seeded by sub-agent] RigidBody.J_P fills and returns one per-body buffer", file=RBF_,
         edits=[(RBF_, "        J_P = np.zeros((3, self.nu), dtype=q.dtype)\n        J_P[:, :3] = np.eye(3)\n", "        J_P = self._J_P_buffer\n"),
                (RBF_, "        self.constant_mass_matrix = True\n", "        self.constant_mass_matrix = True\n        self._J_P_buffer = np.zeros((3, self.nu), dtype=float)\n        self._J_P_buffer[:, :3] = np.eye(3, dtype=float)\n")],
         expect="C04.R9"),
]

MUTANTS += [
    dict(id="c04-r10-seed", canary=True, what="[seeded by sub-agent] RigidBody.kappa_P_u in 'closed form' with outer products, the product-rule term (omega . r) I lost; a_P_u forwards to it", file='cardillo/discrete/rigid_body.py',
         edits=[('cardillo/discrete/rigid_body.py', '        a_P_u = np.zeros((3, self.nu), dtype=float)\n        a_P_u[:, 3:] = -self.A_IB(t, q) @ (\n            ax2skew(cross3(u[3:], B_r_CP)) + ax2skew(u[3:]) @ ax2skew(B_r_CP)\n        )\n        return a_P_u\n', '        return self.kappa_P_u(t, q, u, xi=xi, B_r_CP=B_r_CP)\n'), ('cardillo/discrete/rigid_body.py', '        kappa_P_u = np.zeros((3, self.nu))\n        kappa_P_u[:, 3:] = -self.A_IB(t, q) @ (\n            ax2skew(cross3(u[3:], B_r_CP)) + ax2skew(u[3:]) @ ax2skew(B_r_CP)\n        )\n        return kappa_P_u\n', '        omega = u[3:]\n        kappa_P_u = np.zeros((3, self.nu))\n        kappa_P_u[:, 3:] = self.A_IB(t, q) @ (\n            np.outer(omega, B_r_CP) - 2.0 * np.outer(B_r_CP, omega)\n        )\n        return kappa_P_u\n')], expect="C04.R10"),
    dict(id="c04-r10-jp", what="RigidBody.J_P rotational block without the minus sign", file='cardillo/discrete/rigid_body.py',
         old="        J_P[:, 3:] = -self.A_IB(t, q) @ ax2skew(B_r_CP)\n", new="        J_P[:, 3:] = self.A_IB(t, q) @ ax2skew(B_r_CP)\n", expect="C04.R10"),
]
NEUTRAL += [
    dict(id="c04-n-r10", canary=True, what="RigidBody.kappa_P_u in closed form with all three terms; a_P_u forwards to it", file='cardillo/discrete/rigid_body.py',
         edits=[('cardillo/discrete/rigid_body.py', '        a_P_u = np.zeros((3, self.nu), dtype=float)\n        a_P_u[:, 3:] = -self.A_IB(t, q) @ (\n            ax2skew(cross3(u[3:], B_r_CP)) + ax2skew(u[3:]) @ ax2skew(B_r_CP)\n        )\n        return a_P_u\n', '        return self.kappa_P_u(t, q, u, xi=xi, B_r_CP=B_r_CP)\n'), ('cardillo/discrete/rigid_body.py', '        kappa_P_u = np.zeros((3, self.nu))\n        kappa_P_u[:, 3:] = -self.A_IB(t, q) @ (\n            ax2skew(cross3(u[3:], B_r_CP)) + ax2skew(u[3:]) @ ax2skew(B_r_CP)\n        )\n        return kappa_P_u\n', '        omega = u[3:]\n        kappa_P_u = np.zeros((3, self.nu))\n        kappa_P_u[:, 3:] = self.A_IB(t, q) @ (\n            (omega @ B_r_CP) * np.eye(3) + np.outer(omega, B_r_CP) - 2.0 * np.outer(B_r_CP, omega)\n        )\n        return kappa_P_u\n')]),
]

MUTANTS += [
    dict(id="c04-r11-seed", canary=True, what="[seeded by sub-agent] RigidBody gains E_kin with the angular velocity rotated into the inertial basis contracted with B_Theta_C", file='cardillo/discrete/rigid_body.py',
         old='    def B_Omega(self, t, q, u, xi=None):\n        return u[3:]\n', new='    def E_kin(self, t, q, u):\n        Omega = self.A_IB(t, q) @ self.B_Omega(t, q, u)\n        return 0.5 * self.mass * (u[:3] @ u[:3]) + 0.5 * Omega @ self.B_Theta_C @ Omega\n\n    def B_Omega(self, t, q, u, xi=None):\n        return u[3:]\n', expect="C04.R11"),
]
NEUTRAL += [
    dict(id="c04-n-r11", canary=True, what="RigidBody gains E_kin = 1/2 m v.v + 1/2 B_Omega . B_Theta_C B_Omega", file='cardillo/discrete/rigid_body.py', old='    def B_Omega(self, t, q, u, xi=None):\n        return u[3:]\n', new='    def E_kin(self, t, q, u):\n        B_Omega = self.B_Omega(t, q, u)\n        return 0.5 * self.mass * (u[:3] @ u[:3]) + 0.5 * B_Omega @ self.B_Theta_C @ B_Omega\n\n    def B_Omega(self, t, q, u, xi=None):\n        return u[3:]\n'),
]

MUTANTS += [
    dict(id="c04-r12-seed", canary=True, what="[seeded by sub-agent] RigidBody.v_P_q and kappa_P_q memoised 'like v_P', the decorator copy-pasted with the same cache object", file='cardillo/discrete/rigid_body.py',
         edits=[('cardillo/discrete/rigid_body.py', '    def v_P_q(self, t, q, u, xi=None, B_r_CP=np.zeros(3, dtype=float)):\n', '    @cachedmethod(\n        lambda self: self.v_P_cache,\n        key=lambda self, t, q, u, xi=None, B_r_CP=np.zeros(3, dtype=float): hashkey(t, *q, *u, *B_r_CP),\n    )\n    def v_P_q(self, t, q, u, xi=None, B_r_CP=np.zeros(3, dtype=float)):\n'), ('cardillo/discrete/rigid_body.py', '    def kappa_P_q(self, t, q, u, xi=None, B_r_CP=np.zeros(3)):\n', '    @cachedmethod(\n        lambda self: self.v_P_cache,\n        key=lambda self, t, q, u, xi=None, B_r_CP=np.zeros(3, dtype=float): hashkey(t, *q, *u, *B_r_CP),\n    )\n    def kappa_P_q(self, t, q, u, xi=None, B_r_CP=np.zeros(3)):\n')], expect="C04.R12"),
]

ROT4 = "cardillo/math/rotations.py"
MUTANTS += [
    dict(id="c04-r13-seed", canary=True, what="[seeded by sub-agent] T_SO3_inv_quat honours normalize=False by returning the pseudo-inverse L(P)^T / (2 |P|^2) (degree -1)", file=ROT4,
         old="    p0, p = P[0], P[1:]\n    return np.vstack((-p, p0 * eye3 + ax2skew(p))) / 2\n",
         new="    p0, p = P[0], P[1:]\n    matrix = np.vstack((-p, p0 * eye3 + ax2skew(p))) / 2\n    if not normalize:\n        matrix /= P @ P\n    return matrix\n", expect="C04.R13"),
    dict(id="c04-r13-site", what="RigidBody.q_dot normalises the quaternion before the kinematic map (degree 0)", file=RB,
         old="        q_dot[3:] = T_SO3_inv_quat(q[3:], normalize=False) @ u[3:]", new="        q_dot[3:] = T_SO3_inv_quat(q[3:] / norm(q[3:]), normalize=False) @ u[3:]", expect="C04.R4"),
]
NEUTRAL += [
    dict(id="c04-n-r13", canary=True, what="T_SO3_inv_quat builds its matrix in a local first", file=ROT4,
         old="    p0, p = P[0], P[1:]\n    return np.vstack((-p, p0 * eye3 + ax2skew(p))) / 2\n",
         new="    p0, p = P[0], P[1:]\n    matrix = np.vstack((-p, p0 * eye3 + ax2skew(p))) / 2\n    return matrix\n"),
]
