"""C26  Memoised kinematic evaluations are transparent.

Structural clauses decided, for every @cachedmethod site in cardillo/:
 R1 key completeness   every parameter the body reads is a component of the cache key, or is provably a function
                       of key components at every call site (rods: N, N_xi are the basis functions of the keyed xi)
 R2 no stale state     every data attribute of self read (transitively) under the cache is written only in
                       __init__, or each writer clears/re-creates the cache
 R3 no poisoning       values returned by memoised methods (also through lambda aliases) are never mutated in place
                       by a caller
 R4 one cache/method   a cache object serves exactly one method per class; the key lambda has the method's signature
"""
from __future__ import annotations

import ast

from ..core import AnalysisError, dotted, norm_src, walk_no_nested, func_params
from ..cfg import CFG
from ..dataflow import ReachingDefs

EXPLANATION = ("Enumerates all cachedmethod sites from the decorators; compares key lambdas with parameter liveness; "
               "follows self.method / lambda-attribute calls to collect the self state read under each cache and checks "
               "every writer of that state for a cache clear; def-use check that no caller mutates a memoised result "
               "in place; call-site patterns proving N, N_xi = basis(xi) for the rods' (qe, xi)-keyed caches.")
NOT_DECIDED = ("numerical equality of cached and uncached values; that two different rod elements never share identical "
               "element coordinates qe (stated assumption behind the (qe, xi) key).")
ASSUMPTIONS = ["two different rod elements never have identical element coordinates qe (so el is determined by the key)",
               "constructor data captured by lambda attributes (subsystems, xi, DOF counts) do not change after assembly"]
BLIND_SPOTS = ["mutation of a cached array through an alias created in another function", "hash collisions of float keys"]

CACHED_DECOS = ("cachedmethod", "cached")


class Site:
    def __init__(self, rel, cls, fn, cache_attr, key_params, key_names):
        self.rel, self.cls, self.fn = rel, cls, fn
        self.cache_attr = cache_attr
        self.key_params = key_params
        self.key_names = key_names


def _inline_locals(fn, expr, depth=0):
    """expr with the single-assignment locals of fn substituted (bounded depth)"""
    import copy
    binds = {}
    for w in ast.walk(fn):
        if isinstance(w, ast.Assign) and len(w.targets) == 1 and isinstance(w.targets[0], ast.Name):
            binds.setdefault(w.targets[0].id, []).append(w.value)

    class Sub(ast.NodeTransformer):
        def __init__(self, d):
            self.d = d

        def visit_Name(self, n):
            if isinstance(n.ctx, ast.Load) and n.id in binds and len(binds[n.id]) == 1 and self.d < 6:
                return Sub(self.d + 1).visit(copy.deepcopy(binds[n.id][0]))
            return n
    return Sub(0).visit(copy.deepcopy(expr))


QUAT_KERNEL_DEGREE = {"Exp_SO3_quat": 0, "Exp_SO3_quat_P": -1, "T_SO3_quat": -1, "T_SO3_inv_quat": 1, "T_SO3_quat_P": -2, "T_SO3_inv_quat_P": 0}
# scaling degree of the normalising quaternion kernels in their argument: exactly what C01.R1 / C01.R2 establish on the same tree (K6)


def r7_key_components(ctx, sites, rule="C26.R7"):
    """A cache key identifies arguments.  Built from the arguments themselves (`t`, `*q`, `xi`) it identifies only equal ones.  A component
    COMPUTED from an argument identifies distinct arguments, which is transparent only if the memoised value has the same invariance:
      * a slice `*q[3:]` is fine when the body reads the argument through that slice only;
      * a normalised quaternion `*(p / norm(p))` is invariant under scaling of p: fine for a value of scaling degree 0 in p (the rotation
        matrix), wrong for its derivative (degree -1) - the degrees are those C01 verifies for the kernels;
      * rounding (round, rint, floor, int, astype(int)) is a tolerance key: wrong for any non-constant value."""
    rep = ctx.rep
    n = 0
    for s in sites:
        if s.key_params is None:
            continue
        C = f"{s.rel}:{s.cls.qual}.{s.fn.name}"
        keyl = getattr(s, "key_lambda", None)
        if keyl is None:
            continue
        calls = [w for w in ast.walk(keyl.body) if isinstance(w, ast.Call) and (dotted(w.func) or "").split(".")[-1] == "hashkey"]
        comps = calls[0].args if calls else ([keyl.body] if not isinstance(keyl.body, ast.Tuple) else keyl.body.elts)
        params = set(s.key_params)
        for c in comps:
            n += 1
            core = c.value if isinstance(c, ast.Starred) else c
            src = norm_src(c)
            if isinstance(core, ast.Name) or (isinstance(core, ast.Call) and (dotted(core.func) or "").split(".")[-1] in ("tuple", "id", "tobytes", "float", "hash")
                                               and all(isinstance(a, ast.Name) for a in core.args)) \
                    or (isinstance(core, ast.Call) and isinstance(core.func, ast.Attribute) and core.func.attr in ("tobytes", "tolist") and isinstance(core.func.value, ast.Name)):
                rep.ok(rule, C, f"key component `{src}` is the argument itself", trivial=True)
                continue
            if isinstance(core, ast.Constant):
                rep.ok(rule, C, f"key component `{src}` is a constant", trivial=True)
                continue
            if isinstance(core, ast.Subscript) and isinstance(core.value, ast.Name):
                arg, sl = core.value.id, norm_src(core)
                other = [w for st in s.fn.body for w in ast.walk(st) if isinstance(w, ast.Name) and w.id == arg and isinstance(w.ctx, ast.Load)
                         and not (isinstance(getattr(w, "_parent", None), ast.Subscript) and norm_src(w._parent) == sl)
                         and not (isinstance(getattr(w, "_parent", None), ast.Attribute) and w._parent.attr in ("dtype", "shape"))]
                if other:
                    rep.bad(rule, C, other[0], f"the key holds only the slice `{sl}` of `{arg}`, but the body also reads `{arg}` outside that slice: two arguments that agree on the slice share "
                            "an entry", f"{s.rel}:{other[0].lineno}")
                else:
                    rep.ok(rule, C, f"key component `{src}`: the body reads `{arg}` through this slice only")
                continue
            names = {w.id for w in ast.walk(core) if isinstance(w, ast.Name)} & params
            fnames = {(dotted(w.func) or "").split(".")[-1] for w in ast.walk(core) if isinstance(w, ast.Call)}
            if isinstance(core, ast.Call) and (dotted(core.func) or "").split(".")[-1] in ("hash", "sum", "crc32", "adler32") and names:
                rep.bad(rule, C, s.fn.name, f"the key is the digest `{src[:60]}` of the arguments: digests collide (CPython: hash(-1.0) == hash(-2.0) == -2, and a tuple's hash depends only on its "
                        "entries' hashes), and a key collision is served as a cache hit - two configurations that differ in one such entry share an entry", f"{s.rel}:{s.fn.lineno}")
                continue
            rounding = fnames & {"round", "rint", "floor", "ceil", "int", "around", "trunc", "round_"} or any(
                isinstance(w, ast.Call) and isinstance(w.func, ast.Attribute) and w.func.attr == "astype" for w in ast.walk(core))
            normalising = isinstance(core, ast.BinOp) and isinstance(core.op, ast.Div) and isinstance(core.right, ast.Call) \
                and (dotted(core.right.func) or "").split(".")[-1] in ("norm",) and core.right.args and norm_src(core.right.args[0]) == norm_src(core.left)
            if rounding:
                rep.bad(rule, C, s.fn.name, f"key component `{src}` rounds its argument: all arguments within the rounding cell share one entry, so the memoised value is served for arguments it was "
                        "not computed for", f"{s.rel}:{s.fn.lineno}")
            elif normalising:
                sl = norm_src(core.left)
                kern = [(w, QUAT_KERNEL_DEGREE.get((dotted(w.func) or "").split(".")[-1])) for st in s.fn.body for w in ast.walk(st)
                        if isinstance(w, ast.Call) and w.args and norm_src(w.args[0]) == sl]
                known = [(w, d) for w, d in kern if d is not None and not any(k.arg == "normalize" and isinstance(k.value, ast.Constant) and k.value.value is False for k in w.keywords)]
                bad = [(w, d) for w, d in known if d != 0]
                if bad:
                    w, d = bad[0]
                    rep.bad(rule, C, w, f"the key `{src}` is invariant under scaling of `{sl}`, but the memoised value is not: `{norm_src(w)[:50]}` has scaling degree {d:+d} in its argument (C01), so "
                            f"two states with the same orientation and different quaternion length share an entry and the second is served the first one's value, off by the ratio of the lengths",
                            f"{s.rel}:{w.lineno}")
                elif known and len(known) == len(kern):
                    rep.ok(rule, C, f"key `{src}` is scale invariant and so is the value ({', '.join(sorted({norm_src(w.func) for w, _ in known}))}: degree 0 by C01)")
                else:
                    rep.ok(rule, C, f"key `{src}` is scale invariant; invariance of the value not decided (no verdict)", verdict="unknown")
            elif names:
                rep.ok(rule, C, f"key component `{src}` is computed from {sorted(names)}; its level sets are not analysed (no verdict)", verdict="unknown")
            else:
                rep.ok(rule, C, f"key component `{src}` does not depend on an argument", trivial=True)
    return n


def find_sites(ctx):
    sites = []
    for ci in ctx.model.all_classes():
        for mname, fn in ci.methods.items():
            for d in fn.decorator_list:
                if isinstance(d, ast.Call) and (dotted(d.func) or "").split(".")[-1] in CACHED_DECOS:
                    cache_attr = None
                    if d.args and isinstance(d.args[0], ast.Lambda) and isinstance(d.args[0].body, ast.Attribute):
                        cache_attr = d.args[0].body.attr
                    keyl = None
                    for k in d.keywords:
                        if k.arg == "key" and isinstance(k.value, ast.Lambda):
                            keyl = k.value
                        elif k.arg == "key" and isinstance(k.value, ast.Name) and (k.value.id in ci.methods or isinstance(ctx.repo.module(ci.rel).defs().get(k.value.id), ast.FunctionDef)):
                            # key given by a named function of the class (or of the module): read it like a lambda whose body is the returned
                            # expression, locals inlined (p = q[3:]; return hashkey(*(p / norm(p))))
                            kf = ci.methods.get(k.value.id) or ctx.repo.module(ci.rel).defs()[k.value.id]
                            rets_ = [r for r in ast.walk(kf) if isinstance(r, ast.Return) and r.value is not None]
                            if len(rets_) == 1:
                                keyl = ast.Lambda(args=kf.args, body=_inline_locals(kf, rets_[0].value))
                                ast.copy_location(keyl, kf)
                                ast.fix_missing_locations(keyl)
                    shared = (dotted(d.func) or "").split(".")[-1] == "cached"
                    if shared:
                        cache_attr = f"<cache object of the decorator of {fn.name}>"
                    if cache_attr is None:
                        raise AnalysisError(f"cachedmethod at {ci.rel}:{fn.lineno}: cache accessor not recognised")
                    if keyl is None:
                        kp, kn = None, None
                    else:
                        kp = func_params(keyl)
                        kn = {n.id for n in ast.walk(keyl.body) if isinstance(n, ast.Name)}
                    site = Site(ci.rel, ci, fn, cache_attr, kp, kn)
                    site.key_lambda = keyl
                    if not shared:
                        # a cache object created in the CLASS BODY (of this class or a base) and never per instance is one object for all instances
                        per_instance = any(cache_attr in c_.stores for c_ in [ci] + [b for b in ctx.model.all_classes() if b.qual in getattr(ci, "base_names", [])]) \
                            or any(isinstance(w, ast.Assign) and any(isinstance(t, ast.Attribute) and t.attr == cache_attr and dotted(t.value) == "self" for t in w.targets)
                                   for c_ in ctx.model.all_classes() for m_ in c_.methods.values() for w in ast.walk(m_))
                        class_level = any(isinstance(st_, ast.Assign) and any(isinstance(t, ast.Name) and t.id == cache_attr for t in st_.targets)
                                          for c_ in ctx.model.all_classes() for st_ in getattr(c_.node, "body", []))
                        if class_level and not per_instance:
                            shared = True
                            site.shared_why = "cache object created in the class body"
                    site.shared = shared
                    sites.append(site)
    return sites


def handmade_memo(ctx, rule, want_file):
    """cachetools decorators are covered by R1-R4; this covers closures with `nonlocal` state that return the remembered value.
    Expected count on the pinned tree: zero closures of that kind (the canary mutant plants one)."""
    from .. import closures
    rep = ctx.rep
    n_fn = 0
    for rel, mod in sorted(ctx.repo.modules.items()):
        if not want_file(rel):
            continue
        for q, fn in mod.defs().items():
            if not isinstance(fn, ast.FunctionDef) or "." in q:
                continue
            n_fn += 1
            for inner, missing in closures.stale_memo_closures(fn):
                rep.bad(rule, f"{rel}:{q}.{inner.name}", inner.name, f"`{inner.name}` remembers its last value and recomputes it only when its 'changed?' test fires, but that test "
                        f"does not look at the parameter(s) {missing} which it passes on to the wrapped function: a call that differs only in {missing} is served the stale value "
                        "(for a prescribed-motion Frame the coordinates never change while the time does)", f"{rel}:{inner.lineno}")
    rep.ok(rule, "cardillo", f"{n_fn} top-level functions scanned for value-remembering closures", trivial=True)


def attribute_memos(ctx, rule, want_file):
    """Third form of memoisation (besides cachetools decorators and closures): a method keeps its last result on the instance,
        if <test mentioning self._k>:  self._k = <key(params)>;  self._v = <g(params)>
        ... self._v ...
    (the test being `key != self._k`, `self._k is None or not np.array_equal(key, self._k)`, ...).  The remembered value is served whenever
    the key repeats, so every parameter - at the granularity of `param.attr` access paths (sol_i.t vs sol_i.q) - that g reads must be
    readable from the key expression."""
    rep = ctx.rep
    n_fn = n_memo = 0
    for rel, mod in sorted(ctx.repo.modules.items()):
        if not want_file(rel):
            continue
        for q, fn in mod.defs().items():
            if not isinstance(fn, ast.FunctionDef):
                continue
            n_fn += 1
            params = {a.arg for a in fn.args.args} - {"self"}
            binds = {}
            for w in ast.walk(fn):
                if isinstance(w, ast.Assign) and len(w.targets) == 1 and isinstance(w.targets[0], ast.Name):
                    binds.setdefault(w.targets[0].id, []).append(w.value)
            par = {}
            for p_ in ast.walk(fn):
                for c_ in ast.iter_child_nodes(p_):
                    par[id(c_)] = p_

            def reads(e, seen=None):
                seen = seen if seen is not None else set()
                out = set()
                for x in ast.walk(e):
                    if isinstance(x, ast.Name):
                        if x.id in params:
                            pa = par.get(id(x))
                            gp = par.get(id(pa)) if pa is not None else None
                            is_method = isinstance(gp, ast.Call) and gp.func is pa       # p.tobytes(): reads all of p
                            out.add(f"{x.id}.{pa.attr}" if isinstance(pa, ast.Attribute) and pa.value is x and not is_method else x.id)
                        elif x.id in binds and x.id not in seen:
                            seen.add(x.id)
                            for v in binds[x.id]:
                                out |= reads(v, seen)
                return out

            def covered(need, have):
                return need in have or need.split(".")[0] in have or ("." not in need and False)
            for iff in [w for w in ast.walk(fn) if isinstance(w, ast.If)]:
                tested = {x.attr for x in ast.walk(iff.test) if isinstance(x, ast.Attribute) and dotted(x.value) == "self"}
                if not tested:
                    continue
                for branch in (iff.body, iff.orelse):
                    stores = {}
                    for st in branch:
                        for w in ast.walk(st):
                            if isinstance(w, ast.Assign) and len(w.targets) == 1 and isinstance(w.targets[0], ast.Attribute) and dotted(w.targets[0].value) == "self":
                                stores[w.targets[0].attr] = w.value
                    keys = [k for k in stores if k in tested]
                    if not keys:
                        continue
                    used_later = {x.attr for w in ast.walk(fn) for x in ast.walk(w) if isinstance(x, ast.Attribute) and dotted(x.value) == "self" and isinstance(x.ctx, ast.Load)}
                    vals = {a: v for a, v in stores.items() if a not in keys and a in used_later}
                    if not vals:
                        continue
                    n_memo += 1
                    C = f"{rel}:{q}"
                    kreads = set()
                    for k in keys:
                        kreads |= reads(stores[k])
                    for a, v in sorted(vals.items()):
                        miss = sorted(r for r in reads(v) if not covered(r, kreads))
                        if miss:
                            rep.bad(rule, C, iff, f"`{fn.name}` keeps its last result in self.{a} and recomputes it only when `{norm_src(iff.test)[:70]}`; the key is built from {sorted(kreads)} but "
                                    f"the remembered value also depends on {miss}: a call that repeats the key with another `{miss[0]}` is served the value of the earlier call", f"{rel}:{iff.lineno}")
                        else:
                            rep.ok(rule, C, f"instance-attribute memo self.{a}: every input the value reads is part of the key")
    rep.ok(rule, "cardillo", f"{n_fn} functions scanned for instance-attribute memos ({n_memo} found)", trivial=True)
    return n_memo


def one_cache_per_method(ctx, rule, want_rel=lambda rel: True):
    """two memoised methods of one class must not store into the same cache object: under equal keys (same arguments) the second one
    evaluated is served the first one's result"""
    rep = ctx.rep
    seen = {}
    n = 0
    for s in find_sites(ctx):
        if not want_rel(s.rel):
            continue
        n += 1
        C = f"{s.rel}:{s.cls.qual}.{s.fn.name}"
        k = (s.cls.qual, s.cache_attr)
        if k in seen:
            rep.bad(rule, C, f"self.{s.cache_attr}", f"cache object self.{s.cache_attr} is shared with {seen[k]}: both methods build the same key from the same arguments, so whichever is evaluated "
                    f"second at a state returns the other's result (a stated derivative that is the derivative of ANOTHER quantity)", f"{s.rel}:{s.fn.lineno}")
        else:
            seen[k] = s.fn.name
            rep.ok(rule, C, f"own cache object self.{s.cache_attr}")
    return n


def dict_memos(ctx, rule, want_file):
    """Fourth form of memoisation: a dictionary that outlives the call (module level or instance attribute),
        key = <k(params)>;  if key not in D: D[key] = <g(params)>;  return D[key]
    Every parameter g reads must be readable from the key expression."""
    rep = ctx.rep
    n = 0
    for rel, mod in sorted(ctx.repo.modules.items()):
        if not want_file(rel):
            continue
        globs = {t.id for st in mod.tree.body if isinstance(st, ast.Assign) for t in st.targets if isinstance(t, ast.Name)}
        for q, fn in mod.defs().items():
            if not isinstance(fn, ast.FunctionDef):
                continue
            params = {a.arg for a in fn.args.args} - {"self"}
            binds = {}
            for w in ast.walk(fn):
                if isinstance(w, ast.Assign) and len(w.targets) == 1 and isinstance(w.targets[0], ast.Name):
                    binds.setdefault(w.targets[0].id, []).append(w.value)

            def reads(e, seen=None):
                seen = seen if seen is not None else set()
                out = set()
                for x in ast.walk(e):
                    if isinstance(x, ast.Name):
                        if x.id in params:
                            out.add(x.id)
                        elif x.id in binds and x.id not in seen:
                            seen.add(x.id)
                            for v in binds[x.id]:
                                out |= reads(v, seen)
                return out
            for iff in [w for w in ast.walk(fn) if isinstance(w, ast.If)]:
                t = iff.test
                if not (isinstance(t, ast.Compare) and len(t.ops) == 1 and isinstance(t.ops[0], (ast.NotIn, ast.In))):
                    continue
                D = t.comparators[0]
                dname = norm_src(D)
                persistent = (isinstance(D, ast.Name) and D.id in globs) or (isinstance(D, ast.Attribute) and dotted(D.value) == "self")
                if not persistent:
                    continue
                branch = iff.body if isinstance(t.ops[0], ast.NotIn) else iff.orelse
                stores = [w for st in branch for w in ast.walk(st) if isinstance(w, ast.Assign) and len(w.targets) == 1 and isinstance(w.targets[0], ast.Subscript)
                          and norm_src(w.targets[0].value) == dname]
                if not stores:
                    continue
                n += 1
                C = f"{rel}:{q}"
                kreads = reads(t.left)
                vreads = set()
                for st in stores:
                    vreads |= reads(st.value)
                miss = sorted(vreads - kreads)
                if miss:
                    rep.bad(rule, C, iff, f"`{fn.name}` remembers its result in the persistent dictionary `{dname}` under the key `{norm_src(t.left)[:40]}` built from {sorted(kreads)}, but the "
                            f"remembered value also depends on {miss}: a later call with the same key and another `{miss[0]}` is served the value computed for the first one", f"{rel}:{iff.lineno}")
                else:
                    rep.ok(rule, C, f"dictionary memo `{dname}`: every parameter the value reads is part of the key")
    rep.ok(rule, "cardillo", f"{n} dictionary memo(s) found", trivial=True)
    return n


def r1_keys(ctx, sites, rule="C26.R1", want_cls=lambda ci: True):
    """key completeness of the memoised methods of the selected classes; returns the parameters discharged at call sites"""
    rep = ctx.rep
    exempt_calls = {}  # (method name) -> params needing call-site proof
    for s in sites:
        if not want_cls(s.cls):
            continue
        C = f"{s.rel}:{s.cls.qual}.{s.fn.name}"
        if s.key_names is None:
            continue
        if getattr(s, "shared", False):
            # cachetools.cached on a method: ONE cache object for all instances of the class, so the instance is part of what
            # the result depends on
            why = getattr(s, "shared_why", "cachetools.cached")
            if "self" in s.key_names:
                rep.ok(rule, C, f"shared cache ({why}): the key contains the instance")
            else:
                rep.bad(rule, C, f"key=... hashkey({', '.join(sorted(s.key_names - {'hashkey', 'self'}))})",
                        f"the method's cache object is shared by all instances ({why}) but the key does not contain `self`: a second instance (another rod with another mesh or "
                        "interpolation) evaluated with the same arguments is served the first instance's result", f"{s.rel}:{s.fn.lineno}")
        params = func_params(s.fn)[1:]
        body_reads = {n.id for st in s.fn.body for n in ast.walk(st) if isinstance(n, ast.Name) and isinstance(n.ctx, ast.Load)}
        for p in params:
            if p in s.key_names:
                rep.ok(rule, C, f"parameter `{p}` is a key component")
            elif p not in body_reads:
                rep.ok(rule, C, f"parameter `{p}` is not in the key and is not read by the body", trivial=True)
            elif s.fn.name in ("_eval", "_deval") and p in ("N", "N_xi"):
                exempt_calls.setdefault(s.fn.name, set()).add(p)
                rep.ok(rule, C, f"parameter `{p}` not in key: discharged at the call sites (basis functions of the keyed xi)")
            else:
                rep.bad(rule, C, f"key=... hashkey({', '.join(sorted(s.key_names - {'hashkey', 'self'}))})",
                        f"parameter `{p}` influences the result but is not part of the cache key: two calls that differ only in `{p}` return the same cached value",
                        f"{s.rel}:{s.fn.lineno}")
    return exempt_calls


def run(ctx):
    rep = ctx.rep
    rep.rule("C26.R6", "memoised results are neither persistent buffers of the instance nor modified in place by their consumers (K18, whole package)", 20)
    from .. import cachepurity
    cachepurity.report(ctx, "C26.R6", ("cardillo/",))
    rep.rule("C26.R7", "key components are the arguments themselves, a slice the body reads exclusively, or a transformation under which the memoised value is provably invariant (normalised quaternion: value of scaling degree 0); no rounding keys", 30)
    r7_key_components(ctx, find_sites(ctx))
    rep.rule("C26.R1", "key completeness (parameter liveness vs key; rods: N,N_xi = basis(xi) at every call site)", 40)
    rep.rule("C26.R2", "no stale state: writers of state read under a cache clear it", 16)
    rep.rule("C26.R3", "no in-place mutation of memoised results by callers", 80)
    rep.rule("C26.R5", "hand-written memoisation (closures that remember their last value) compares every parameter it hands to the wrapped function", 0)
    handmade_memo(ctx, "C26.R5", lambda rel: rel.startswith("cardillo/"))
    attribute_memos(ctx, "C26.R5", lambda rel: rel.startswith("cardillo/"))
    dict_memos(ctx, "C26.R5", lambda rel: rel.startswith("cardillo/"))
    rep.rule("C26.R4", "one method per cache object; key lambda signature == method signature", 16)
    sites = find_sites(ctx)
    if len(sites) < 16:
        raise AnalysisError(f"only {len(sites)} cachedmethod sites found (16 confirmed by hand)")
    model = ctx.model
    # ---- R4
    seen = {}
    for s in sites:
        C = f"{s.rel}:{s.cls.qual}.{s.fn.name}"
        k = (s.cls.qual, s.cache_attr)
        if k in seen:
            rep.bad("C26.R4", C, f"self.{s.cache_attr}", f"cache object self.{s.cache_attr} is shared with {seen[k]} (results of two methods collide under equal keys)",
                    f"{s.rel}:{s.fn.lineno}")
        else:
            seen[k] = s.fn.name
        mp = func_params(s.fn)
        if s.key_params is None:
            rep.ok("C26.R4", C, "default key (all arguments)")
        elif s.key_params == mp:
            rep.ok("C26.R4", C, f"key lambda signature {s.key_params} equals the method's")
        else:
            rep.bad("C26.R4", C, f"key=lambda {', '.join(s.key_params)}", f"key lambda parameters {s.key_params} differ from the method's {mp}",
                    f"{s.rel}:{s.fn.lineno}")
    # ---- R1
    exempt_calls = r1_keys(ctx, sites)
    if exempt_calls:
        r1_callsites(ctx, exempt_calls)
    # ---- R2
    for s in sites:
        for variant in model.variants(s.cls)[:1] if not _is_dynamic(model, s.cls) else model.variants(s.cls):
            r2_state(ctx, s, variant)
    # ---- R3
    r3_poison(ctx, sites)


def _is_dynamic(model, ci):
    return len(model.variants(ci)) > 1


# --------------------------------------------------------------------------
def r1_callsites(ctx, exempt):
    rep = ctx.rep
    n_sites = 0
    for rel, mod in ctx.repo.modules.items():
        if not rel.startswith("cardillo/rods/"):
            continue
        for q, fn in mod.defs().items():
            if not isinstance(fn, ast.FunctionDef):
                continue
            calls = [c for c in walk_no_nested(fn) if isinstance(c, ast.Call) and isinstance(c.func, ast.Attribute)
                     and c.func.attr in exempt and isinstance(c.func.value, ast.Name) and c.func.value.id == "self"]
            if not calls:
                continue
            cfg = rd = None
            for c in calls:
                n_sites += 1
                C = f"{rel}:{q}"
                args = list(c.args)
                kw = {k.arg: k.value for k in c.keywords}
                a_xi = args[1] if len(args) > 1 else kw.get("xi")
                a_N = args[2] if len(args) > 2 else kw.get("N")
                a_Nxi = args[3] if len(args) > 3 else kw.get("N_xi")
                if a_xi is None or a_N is None or a_Nxi is None:
                    rep.bad("C26.R1", C, c, "call of a (qe, xi)-keyed memoised kernel without explicit xi/N/N_xi", f"{rel}:{c.lineno}")
                    continue
                if cfg is None:
                    cfg = CFG(fn)
                    rd = ReachingDefs(cfg)
                from ..core import enclosing_stmt
                st = enclosing_stmt(c)
                node = cfg.node_of(st)
                ok, why = _n_matches_xi(cfg, rd, node, a_xi, a_N, a_Nxi)
                if not ok and "(None, None)" in why:
                    # P3: the class's own kernel ignores N, N_xi (SE(3) interpolation computes its own shape functions)
                    owner = q.rsplit(".", 1)[0]
                    kern = mod.defs().get(f"{owner}.{c.func.attr}")
                    if kern is not None and not ({"N", "N_xi"} & {n.id for st in kern.body for n in ast.walk(st) if isinstance(n, ast.Name)}):
                        ok, why = True, f"N, N_xi = None, None and {owner}.{c.func.attr} does not read them"
                if ok:
                    rep.ok("C26.R1", C, f"{norm_src(c)[:90]} : {why}")
                else:
                    rep.bad("C26.R1", C, c, f"N / N_xi passed to the memoised kernel are not provably the basis functions of the keyed xi ({why}): "
                            f"a cache hit may return the evaluation for different shape-function values", f"{rel}:{c.lineno}")
    if n_sites < 18:   # 23 confirmed by hand; a routine that stops using the kernels (computes its result another way) is not an analysis failure
        raise AnalysisError(f"only {n_sites} _eval/_deval call sites found (23 confirmed by hand)")


def _single_def(rd, node, name):
    ds = rd.defs_reaching(node, name)
    if len(ds) == 1 and ds[0].kind == "stmt" and isinstance(ds[0].ast, ast.Assign):
        return ds[0]
    return None


def _n_matches_xi(cfg, rd, node, a_xi, a_N, a_Nxi):
    sN, sNxi, sxi = norm_src(a_N), norm_src(a_Nxi), norm_src(a_xi)
    # P1: self.N_r[I], self.N_r_xi[I], xi == self.qp[I] (directly or through one local)
    if isinstance(a_N, ast.Subscript) and isinstance(a_Nxi, ast.Subscript) and dotted(a_N.value) == "self.N_r" and dotted(a_Nxi.value) == "self.N_r_xi":
        I1, I2 = norm_src(a_N.slice), norm_src(a_Nxi.slice)
        if I1 != I2:
            return False, f"N uses [{I1}] but N_xi uses [{I2}]"
        xs = a_xi
        if isinstance(a_xi, ast.Name) and node is not None:
            d = _single_def(rd, node, a_xi.id)
            if d is None:
                return False, f"`{a_xi.id}` has no unique definition"
            xs = d.ast.value
        if isinstance(xs, ast.Subscript) and dotted(xs.value) == "self.qp" and norm_src(xs.slice) == I1:
            return True, f"xi = self.qp[{I1}], N = self.N_r[{I1}], N_xi = self.N_r_xi[{I1}]"
        return False, f"xi is `{norm_src(xs)}`, not self.qp[{I1}]"
    # P2: N, N_xi = self.basis_functions_r(xi[, el])
    if isinstance(a_N, ast.Name) and isinstance(a_Nxi, ast.Name) and node is not None:
        d1, d2 = _single_def(rd, node, a_N.id), _single_def(rd, node, a_Nxi.id)
        if d1 is None or d2 is None or d1 is not d2:
            return False, "N and N_xi do not come from one unique assignment"
        v = d1.ast.value
        t = d1.ast.targets[0]
        if not (isinstance(t, ast.Tuple) and [norm_src(e) for e in t.elts] == [a_N.id, a_Nxi.id]):
            return False, "N, N_xi are not unpacked together in this order"
        if isinstance(v, ast.Call) and dotted(v.func) in ("self.basis_functions_r", "self.mesh_r.eval_basis") and v.args and norm_src(v.args[0]) == sxi:
            # xi must not be re-bound between the basis evaluation and the call
            if isinstance(a_xi, ast.Name):
                dx_call = {x.id for x in rd.defs_reaching(node, a_xi.id)}
                dx_basis = {x.id for x in rd.defs_reaching(d1, a_xi.id)}
                if dx_call != dx_basis:
                    return False, f"`{a_xi.id}` is re-bound between the basis evaluation and the call"
            return True, f"N, N_xi = {norm_src(v)}"
        return False, f"N, N_xi come from `{norm_src(v)}`"
    return False, "unrecognised argument pattern"


# --------------------------------------------------------------------------
def r2_state(ctx, s: Site, variant):
    rep = ctx.rep
    model = ctx.model
    # concrete class: for rods, the cached method lives in CosseratRod_<interp>; analyse each MRO variant
    ci = s.cls
    C = f"{s.rel}:{ci.qual}.{s.fn.name}"
    vtag = ",".join(v for _, v in sorted((variant or {}).items()))
    reads = {}  # attr -> first location

    def visit(fnode, depth, owner):
        if depth > 4:
            return
        for n in ast.walk(fnode):
            if isinstance(n, ast.Attribute) and isinstance(n.value, ast.Name) and n.value.id == "self" and isinstance(n.ctx, ast.Load):
                a = n.attr
                mc, m = model.find_method(ci, a, variant)
                if m is not None:
                    if (a, "m") not in seen:
                        seen.add((a, "m"))
                        visit(m, depth + 1, a)
                    continue
                stores = model.find_stores(ci, a, variant)
                lam = [st for st in stores if st.kind == "lambda"]
                if stores and len(lam) == len(stores):
                    if (a, "l") not in seen:
                        seen.add((a, "l"))
                        for st in lam:
                            visit(st.value, depth + 1, a)
                    continue
                if stores and all(st.kind == "alias" for st in stores):
                    # alias to another attribute (self.h = self._h, self.basis_functions_r = self.mesh_r.eval_basis)
                    continue
                reads.setdefault(a, n.lineno)

    seen = set()
    visit(s.fn, 0, s.fn.name)
    cache = s.cache_attr
    any_bad = False
    for a in sorted(reads):
        if a == cache:
            continue
        stores = model.find_stores(ci, a, variant)
        writers = sorted({st.method for st in stores if st.method != "__init__"})
        if not writers:
            continue
        for w in writers:
            wc, wfn = model.find_method(ci, w, variant)
            clears = False
            if wfn is not None:
                for n in ast.walk(wfn):
                    if isinstance(n, ast.Call) and isinstance(n.func, ast.Attribute) and n.func.attr == "clear" and dotted(n.func.value) == f"self.{cache}":
                        clears = True
                    if isinstance(n, ast.Assign) and any(dotted(t) == f"self.{cache}" for t in n.targets):
                        clears = True
            if clears:
                rep.ok("C26.R2", C, f"self.{a} is written by {w}(), which clears self.{cache}")
            else:
                any_bad = True
                st0 = [st for st in stores if st.method == w][0]
                rep.bad("C26.R2", C + (f"[{vtag}]" if vtag else ""), f"{w}: {norm_src(st0.node)[:120]}",
                        f"memoised `{s.fn.name}` reads self.{a}, which `{w}` re-writes without clearing self.{cache}: a later call with an "
                        f"equal key returns the value computed from the old self.{a}", f"{wc.rel if wc else s.rel}:{st0.node.lineno}")
    if not any_bad:
        rep.ok("C26.R2", C + (f"[{vtag}]" if vtag else ""), f"state read under self.{cache}: {sorted(reads) or 'none'} — no writer outside __init__ without clear")


# --------------------------------------------------------------------------
MUTATORS = {"fill", "sort", "resize", "itemset", "put", "partition"}


def r3_poison(ctx, sites, rule="C26.R3", want_file=lambda rel: True, floor=80):
    rep = ctx.rep
    cached_names = {s.fn.name for s in sites}
    # lambda aliases that directly return a cached call: self.X = lambda ...: <recv>.cached(...)
    alias = set()
    changed = True
    while changed:
        changed = False
        for ci in ctx.model.all_classes():
            for a, sts in ci.stores.items():
                if a in alias or a in cached_names:
                    continue
                for st in sts:
                    if st.kind == "lambda":
                        b = st.value.body
                        if isinstance(b, ast.Subscript):
                            b = b.value
                        if isinstance(b, ast.Call) and isinstance(b.func, ast.Attribute) and b.func.attr in (cached_names | alias):
                            alias.add(a)
                            changed = True
                    elif st.kind == "alias" and st.value.attr in (cached_names | alias):
                        alias.add(a)
                        changed = True
    names = cached_names | alias
    n_bind = 0
    for rel, mod in ctx.repo.modules.items():
        if not rel.startswith("cardillo/") or not want_file(rel):
            continue
        for q, fn in mod.defs().items():
            if not isinstance(fn, ast.FunctionDef):
                continue
            # quick filter
            if not any(isinstance(n, ast.Attribute) and n.attr in names for n in ast.walk(fn)):
                continue
            cfg = CFG(fn)
            rd = ReachingDefs(cfg)
            C = f"{rel}:{q}"
            # binding nodes: Assign whose value is (a subscript of / transposed) call to a cached name
            bind = {}  # node id -> set of bound local names
            for node in cfg.nodes:
                if node.kind != "stmt" or not isinstance(node.ast, ast.Assign):
                    continue
                v = node.ast.value
                while isinstance(v, (ast.Subscript, ast.Attribute)) and not (isinstance(v, ast.Attribute) and isinstance(v.value, ast.Call)):
                    v = v.value
                if isinstance(v, ast.Attribute) and v.attr == "T":
                    v = v.value
                if isinstance(v, ast.Call) and isinstance(v.func, ast.Attribute) and v.func.attr in names:
                    tgts = set()
                    for t in node.ast.targets:
                        for e in (t.elts if isinstance(t, (ast.Tuple, ast.List)) else [t]):
                            if isinstance(e, ast.Name) and e.id != "_":
                                tgts.add(e.id)
                    if tgts:
                        bind[node.id] = tgts
                        n_bind += 1
                        rep.ok(rule, C, f"binds memoised result: {norm_src(node.ast)[:100]}")
            for node in cfg.nodes:
                if node.kind != "stmt":
                    continue
                a = node.ast
                mutated = []
                if isinstance(a, ast.AugAssign):
                    t = a.target
                    base = t
                    while isinstance(base, ast.Subscript):
                        base = base.value
                    if isinstance(base, ast.Name):
                        mutated.append(base.id)
                    # direct: self.A_IB(t,q)[..] += ...
                    if isinstance(base, ast.Call) and isinstance(base.func, ast.Attribute) and base.func.attr in names:
                        rep.bad(rule, C, a, "in-place update of a memoised result", f"{rel}:{a.lineno}")
                elif isinstance(a, ast.Assign):
                    for t in a.targets:
                        for e in (t.elts if isinstance(t, (ast.Tuple, ast.List)) else [t]):
                            if isinstance(e, ast.Subscript):
                                base = e
                                while isinstance(base, ast.Subscript):
                                    base = base.value
                                if isinstance(base, ast.Name):
                                    mutated.append(base.id)
                                if isinstance(base, ast.Call) and isinstance(base.func, ast.Attribute) and base.func.attr in names:
                                    rep.bad(rule, C, a, "subscript store into a memoised result", f"{rel}:{a.lineno}")
                elif isinstance(a, ast.Expr) and isinstance(a.value, ast.Call):
                    f = a.value.func
                    if isinstance(f, ast.Attribute) and f.attr in MUTATORS and isinstance(f.value, ast.Name):
                        mutated.append(f.value.id)
                    for k in a.value.keywords:
                        if k.arg == "out" and isinstance(k.value, ast.Name):
                            mutated.append(k.value.id)
                for nm in mutated:
                    for d in rd.defs_reaching(node, nm):
                        if d.id in bind and nm in bind[d.id] and d is not node:
                            rep.bad(rule, C, a,
                                    f"`{nm}` holds the array returned by a memoised method (`{norm_src(d.ast)[:80]}`) and is mutated in place: "
                                    f"the cache entry is corrupted for every later hit", f"{rel}:{a.lineno}")
    if n_bind < floor:
        raise AnalysisError(f"{rule}: only {n_bind} sites binding a memoised result found (floor {floor})")


S2S = "cardillo/contacts/sphere2sphere.py"
RB = "cardillo/discrete/rigid_body.py"
RODB = "cardillo/rods/_base.py"
MUTANTS = [
    dict(id="c26-m1", canary=True, what="RigidBody.r_OP: B_r_CP dropped from the key", file=RB,
         old="    def r_OP(self, t, q, xi=None, B_r_CP=np.zeros(3, dtype=float)):\n        return q[:3]",
         new="    def r_OP(self, t, q, xi=None, B_r_CP=np.zeros(3, dtype=float)):\n        return q[:3]", expect="C26.R1",
         edits=[(RB, "        key=lambda self, t, q, xi=None, B_r_CP=np.zeros(3, dtype=float): hashkey(\n            t, *q, *B_r_CP\n        ),\n    )\n    def r_OP(",
                 "        key=lambda self, t, q, xi=None, B_r_CP=np.zeros(3, dtype=float): hashkey(\n            t, *q\n        ),\n    )\n    def r_OP(")]),
    dict(id="c26-m2", what="RigidBody.v_P: u dropped from the key", file=RB,
         old="            t, *q, *u, *B_r_CP\n", new="            t, *q, *B_r_CP\n", expect="C26.R1"),
    dict(id="c26-m3", canary=True, what="caller mutates a memoised rotation matrix in place", file=RB,
         old="        r_OP_q[:, :] += np.einsum(\"ijk,j->ik\", self.A_IB_q(t, q), B_r_CP)\n        return r_OP_q",
         new="        A_IB_q = self.A_IB_q(t, q)\n        A_IB_q[:, :, :3] += 0.0\n        r_OP_q[:, :] += np.einsum(\"ijk,j->ik\", A_IB_q, B_r_CP)\n        return r_OP_q", expect="C26.R3"),
    dict(id="c26-m4", what="A_IB and A_IB_q share one cache object", file=RB,
         old="        lambda self: self.A_IB_q_cache,", new="        lambda self: self.A_IB_cache,", expect="C26.R4"),
    dict(id="c26-m5", what="rod f_int_el passes N of another quadrature point", file=RODB,
         old="            ) = self._deval(qe, qpi, N=self.N_r[el, i], N_xi=self.N_r_xi[el, i])\n\n            # axial and shear strains\n",
         new="            ) = self._deval(qe, qpi, N=self.N_r[el, 0], N_xi=self.N_r_xi[el, i])\n\n            # axial and shear strains\n", expect="C26.R1", optional=True),
    dict(id="c26-m6", what="RigidBody gets a writer of cached state: step_callback rescales a new attribute read by A_IB", expect="C26.R2",
         edits=[(RB, "    def A_IB(self, t, q, xi=None):\n        return Exp_SO3_quat(q[3:])", "    def A_IB(self, t, q, xi=None):\n        return self.scale * Exp_SO3_quat(q[3:])"),
                (RB, "        q[3:] = q[3:] / norm(q[3:])\n        return q, u", "        q[3:] = q[3:] / norm(q[3:])\n        self.scale = 1.0\n        return q, u")]),
    dict(id="c26-m7", what="Mesh1D.eval_basis: el dropped from the key", file="cardillo/rods/discretization/mesh1D.py",
         old="key=lambda self, xi, el=None: hashkey(xi, el),", new="key=lambda self, xi, el=None: hashkey(xi),", expect="C26.R1"),
]
MUTANTS = [m for m in MUTANTS if not m.get("optional")]
CB_ = "cardillo/constraints/_base.py"
MUTANTS += [
    dict(id="c26-r5-seed", canary=True, what="[seeded by sub-agent] joint bases wrapped in a 'cache last evaluation' closure keyed on the coordinates only", file=CB_,
         edits=[(CB_, "class PositionOrientationBase:\n", "def cache_last_evaluation(fun, local_qDOF):\n    q_last, value = None, None\n\n    def cached_fun(t, q):\n        nonlocal q_last, value\n        q_loc = q[local_qDOF]\n        if q_last is None or np.any(q_last != q_loc):\n            q_last, value = q_loc.copy(), fun(t, q)\n        return value\n\n    return cached_fun\n\n\nclass PositionOrientationBase:\n")],
         expect="C26.R5"),
]
NEUTRAL = [
    dict(id="c26-n1", canary=True, what="copy before mutating is fine", file=RB,
         old="        r_OP_q[:, :] += np.einsum(\"ijk,j->ik\", self.A_IB_q(t, q), B_r_CP)\n        return r_OP_q",
         new="        A_IB_q = self.A_IB_q(t, q)\n        A_IB_q = A_IB_q.copy()\n        A_IB_q[:, :, :3] += 0.0\n        r_OP_q[:, :] += np.einsum(\"ijk,j->ik\", A_IB_q, B_r_CP)\n        return r_OP_q"),
]
MUTANTS += [
    dict(id="c26-r6-1", canary=True, what="rod E_pot_el divides the memoised strains in place (cache poisoning by a consumer)", file="cardillo/rods/_base.py",
         old="            # axial and shear strains\n            B_Gamma = B_Gamma_bar / Ji\n\n            # torsional and flexural strains\n            B_Kappa = B_Kappa_bar / Ji\n\n            # evaluate strain energy function",
         new="            B_Gamma_bar /= Ji\n            B_Kappa_bar /= Ji\n            B_Gamma, B_Kappa = B_Gamma_bar, B_Kappa_bar\n\n            # evaluate strain energy function", expect="C26.R6"),
]
MUTANTS += [
    dict(id="c26-r6-seed", canary=True, what="[seeded by sub-agent] Sphere2Sphere.n stores the centre distance as a side effect for n_q1_q2 to reuse", file="cardillo/contacts/sphere2sphere.py",
         old="        return r_C1C2 / norm(r_C1C2)\n", new="        self.d_C1C2 = norm(r_C1C2)\n        return r_C1C2 / self.d_C1C2\n", expect="C26.R6"),
]
MUTANTS += [
    dict(id="c26-r1-classcache", canary=True, what="[seeded by sub-agent] the rods' _eval / _deval caches become class attributes (shared by all rods)", file="cardillo/rods/_base.py",
         edits=[("cardillo/rods/_base.py", "        self._eval_cache = LRUCache(maxsize=nquadrature + 10)\n        self._deval_cache = LRUCache(maxsize=nquadrature + 10)\n", ""),
                ("cardillo/rods/_base.py", "class CosseratRod_PetrovGalerkin(RodExportBase, ABC):\n", "class CosseratRod_PetrovGalerkin(RodExportBase, ABC):\n    _eval_cache = LRUCache(maxsize=64)\n    _deval_cache = LRUCache(maxsize=64)\n\n")],
         expect="C26.R1"),
]

MUTANTS += [
    dict(id="c26-r7-seed", canary=True, what="[seeded by sub-agent] RigidBody.A_IB and A_IB_q keyed by the normalised quaternion only (A_IB_q has scaling degree -1)", file='cardillo/discrete/rigid_body.py',
         edits=[('cardillo/discrete/rigid_body.py', '    @cachedmethod(\n        lambda self: self.A_IB_cache,\n        key=lambda self, t, q, xi=None: hashkey(t, *q),\n    )\n    def A_IB(self, t, q, xi=None):', '    def _orientation_key(self, t, q, xi=None):\n        p = q[3:]\n        return hashkey(*(p / norm(p)))\n\n    @cachedmethod(lambda self: self.A_IB_cache, key=_orientation_key)\n    def A_IB(self, t, q, xi=None):'), ('cardillo/discrete/rigid_body.py', '    @cachedmethod(\n        lambda self: self.A_IB_q_cache,\n        key=lambda self, t, q, xi=None: hashkey(t, *q),\n    )\n    def A_IB_q(self, t, q, xi=None):', '    @cachedmethod(lambda self: self.A_IB_q_cache, key=_orientation_key)\n    def A_IB_q(self, t, q, xi=None):')], expect="C26.R7"),
    dict(id="c26-r7-round", what="RigidBody.A_IB_q keyed by the rounded coordinates (tolerance key)", file='cardillo/discrete/rigid_body.py', old='    @cachedmethod(\n        lambda self: self.A_IB_q_cache,\n        key=lambda self, t, q, xi=None: hashkey(t, *q),\n    )\n    def A_IB_q(self, t, q, xi=None):', new='    @cachedmethod(\n        lambda self: self.A_IB_q_cache,\n        key=lambda self, t, q, xi=None: hashkey(t, *np.round(q, 12)),\n    )\n    def A_IB_q(self, t, q, xi=None):', expect="C26.R7"),
]
NEUTRAL += [
    dict(id="c26-n-r7", canary=True, what="RigidBody.A_IB alone keyed by the normalised quaternion (the rotation matrix has scaling degree 0)", file='cardillo/discrete/rigid_body.py', old='    @cachedmethod(\n        lambda self: self.A_IB_cache,\n        key=lambda self, t, q, xi=None: hashkey(t, *q),\n    )\n    def A_IB(self, t, q, xi=None):', new='    def _orientation_key(self, t, q, xi=None):\n        p = q[3:]\n        return hashkey(*(p / norm(p)))\n\n    @cachedmethod(lambda self: self.A_IB_cache, key=_orientation_key)\n    def A_IB(self, t, q, xi=None):'),
]

MUTANTS += [
    dict(id="c26-r6-view", canary=True, what="[seeded by sub-agent] memoised RigidBody.v_P gets a centre-of-mass fast path returning the view u[:3] of its argument", file='cardillo/discrete/rigid_body.py',
         old='    def v_P(self, t, q, u, xi=None, B_r_CP=np.zeros(3, dtype=float)):\n        return u[:3] + self.A_IB(t, q) @ cross3(u[3:], B_r_CP)\n', new='    def v_P(self, t, q, u, xi=None, B_r_CP=np.zeros(3, dtype=float)):\n        if not np.any(B_r_CP):\n            return u[:3]\n        return u[:3] + self.A_IB(t, q) @ cross3(u[3:], B_r_CP)\n', expect="C26.R6"),
]
NEUTRAL += [
    dict(id="c26-n-r6v", canary=True, what="memoised RigidBody.v_P gets a centre-of-mass fast path returning a copy", file='cardillo/discrete/rigid_body.py', old='    def v_P(self, t, q, u, xi=None, B_r_CP=np.zeros(3, dtype=float)):\n        return u[:3] + self.A_IB(t, q) @ cross3(u[3:], B_r_CP)\n', new='    def v_P(self, t, q, u, xi=None, B_r_CP=np.zeros(3, dtype=float)):\n        if not np.any(B_r_CP):\n            return u[:3].copy()\n        return u[:3] + self.A_IB(t, q) @ cross3(u[3:], B_r_CP)\n'),
]

MUTANTS += [
    dict(id="c26-r7-digest", canary=True, every=True, what="[seeded by sub-agent] the rod kernels' key lambdas fold the element coordinates into one integer: hash((*qe, xi))", file='cardillo/rods/cosseratRod.py',
         old='            key=lambda self, qe, xi, N, N_xi: hashkey(*qe, xi),\n', new="            key=lambda self, qe, xi, N, N_xi: hash((*qe, xi)),\n", expect="C26.R7"),
]
