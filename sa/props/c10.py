"""C10  Cosserat rod internal forces are stress-free, objective and self-equilibrated.

Structural clauses decided:
 R1 no flow position -> strain   in the Quaternion and R12 kernels (_eval, _deval) the strain outputs B_Gamma_bar, B_Kappa_bar (and their
                                 qe-derivatives) have no data path from the interpolated position r_OP (only from r_OP_xi, which is built
                                 with the derivative weights N_xi): superposed translations cannot change strains
 R2 position unused downstream   every consumer of the kernels that builds energies, internal forces, compliance or constraint residuals
                                 discards the position output: internal forces are functions of strains and orientation only
 R3 same kernel, same scaling    set_reference_strains and every consumer obtain strains from `self._eval/_deval(qe, self.qp[el,i],
                                 self.N_r[el,i], self.N_r_xi[el,i])`, scale them with J = self.J[el,i] of the SAME quadrature point and
                                 compare with self.B_Gamma0[el,i] / self.B_Kappa0[el,i]; J, B_Gamma0, B_Kappa0 are defined from the same
                                 kernel evaluated at Q with J = ||B_Gamma_bar(Q)|| (reference configuration is strain-free by construction)
 R4 self-equilibration, structure the internal forces enter the position rows only through the derivative weights N_r_xi (whose nodal sum
                                 vanishes); material laws receive (B_Gamma, B_Gamma0, B_Kappa, B_Kappa0) in this order
"""
from __future__ import annotations

import ast

from ..core import AnalysisError, dotted, norm_src, walk_no_nested
from ..cfg import CFG
from ..dataflow import ReachingDefs

EXPLANATION = ("Backward data slices (reaching definitions) of the strain outputs of the interpolation kernels; structural "
               "comparison of every quadrature loop that consumes the kernels (index pairing of qp, J, B_Gamma0, B_Kappa0, "
               "N_r, N_r_xi); weight provenance of the internal-force rows.")
NOT_DECIDED = ("rotation objectivity, the zero resultant itself (needs sum N_xi = 0, a value fact of the basis), invariance of the "
               "SE(3) interpolation (holds by construction of the relative screw; not analysed).")
ASSUMPTIONS = ["derivative shape functions sum to zero over the nodes of an element (C13, not claimed)"]
BLIND_SPOTS = ["a wrong sign or factor inside the strain formula"]
RB, CR = "cardillo/rods/_base.py", "cardillo/rods/cosseratRod.py"
CONSUMERS = [
    ("CosseratRod_PetrovGalerkin", "E_pot_el"), ("CosseratRodDisplacementBased", "f_int_el"), ("CosseratRodDisplacementBased", "f_int_el_qe"),
    ("CosseratRodMixed", "c_el"), ("CosseratRodMixed", "c_el_qe"), ("CosseratRodMixed", "W_c_el"), ("CosseratRodMixed", "Wla_c_el_qe"),
    ("CosseratRodConstrained", "g_el"), ("CosseratRodConstrained", "g_q_el"), ("CosseratRodConstrained", "W_g_el"), ("CosseratRodConstrained", "Wla_g_q_el"),
]


def reference_verbatim(ctx):
    """'Every stress-free reference configuration ... has zero strain energy': the strains that are subtracted (B_Gamma0, B_Kappa0, J) must be
    those of the configuration Q the rod was given.  set_reference_strains must store Q verbatim (copy), evaluate the kernel on
    selections of that copy, and nothing may modify self.Q in place in between or elsewhere (a normalisation of the nodal quaternions
    changes the interpolated strains of the Quaternion interpolation, which is linear in the raw nodal quaternions)."""
    from .. import alias
    rep = ctx.rep
    ci = ctx.model.cls("CosseratRod_PetrovGalerkin")
    fn = ci.methods.get("set_reference_strains")
    if fn is None:
        raise AnalysisError("set_reference_strains vanished")
    C = f"{ci.rel}:{ci.qual}.set_reference_strains"
    params = [a.arg for a in fn.args.args][1:]
    if not params:
        raise AnalysisError(f"{C}: no parameter")
    Q = params[0]
    st = [n for n in ast.walk(fn) if isinstance(n, ast.Assign) and norm_src(n.targets[0]) == "self.Q"]
    verb = st and all(norm_src(n.value) in (f"{Q}.copy()", f"np.copy({Q})", f"np.array({Q})", f"np.array({Q}, dtype=float)", Q) for n in st)
    if verb:
        rep.ok("C10.R5", C, f"{norm_src(st[0])}: verbatim copy of the supplied reference coordinates")
    else:
        rep.bad("C10.R5", C, st[0] if st else fn.name, "self.Q is not a verbatim copy of the supplied reference coordinates", f"{ci.rel}:{(st[0] if st else fn).lineno}")
    # in-place modification of self.Q (or of the parameter) anywhere in the class
    fa = alias.FunctionAliasing(fn)
    muts = []
    for node in fa.cfg.nodes:
        for path, how in fa.mutations(node):
            if path in ("self.Q", Q) or path.startswith("self.Q."):
                muts.append((fn, node, how))
    for mname, m in ci.methods.items():
        if m is fn:
            continue
        fa2 = alias.FunctionAliasing(m)
        for node in fa2.cfg.nodes:
            for path, how in fa2.mutations(node):
                if path == "self.Q":
                    muts.append((m, node, how))
    if muts:
        for m, node, how in muts:
            rep.bad("C10.R5", f"{ci.rel}:{ci.qual}.{m.name}", node.ast, f"the stored reference coordinates self.Q are modified in place ({how.lstrip('?')}): the reference strains then belong to "
                    "another configuration than the one supplied, which is no longer stress-free (Quaternion interpolation is linear in the raw nodal quaternions)", f"{ci.rel}:{node.lineno}")
    else:
        rep.ok("C10.R5", C, "no method of the rod modifies self.Q in place")
    # the kernel is evaluated on selections of self.Q
    ev = [w for w in ast.walk(fn) if isinstance(w, ast.Call) and isinstance(w.func, ast.Attribute) and w.func.attr == "_eval" and w.args]
    loc = {n.targets[0].id: n.value for n in ast.walk(fn) if isinstance(n, ast.Assign) and isinstance(n.targets[0], ast.Name)}
    okk = bool(ev)
    for c in ev:
        a = c.args[0]
        v = loc.get(a.id) if isinstance(a, ast.Name) else a
        okk = okk and isinstance(v, ast.Subscript) and norm_src(v.value) in ("self.Q", Q)
    if okk:
        rep.ok("C10.R5", C, f"{len(ev)} kernel evaluations on element selections of self.Q")
    else:
        rep.bad("C10.R5", C, ev[0] if ev else fn.name, "the reference strains are not evaluated on element selections of the stored reference coordinates", f"{ci.rel}:{fn.lineno}")


def reference_counterparts(ctx, rule="C10.R10"):
    """The stress-free clause needs every term of the law to vanish when strain == reference strain, for ANY reference (set_reference_strains
    accepts cross-sections that are not perpendicular to the centre line: B_Gamma0 is a unit vector, not e_x).  Terms of the form
    g(f(B_Gamma), f0(B_Gamma0)) do so only if f0 is f.  Pairs are found by name (x_ / x0_, also as the two elements of a returned tuple whose
    parameters are the strain and its reference) and compared after the substitution strain -> reference strain."""
    rep = ctx.rep
    MMp = "cardillo/rods/_material_models.py"
    mod = ctx.repo.module(MMp)
    SUB = (("B_Gamma0", "\x00G0"), ("B_Kappa0", "\x00K0"), ("B_Gamma", "B_Gamma0"), ("B_Kappa", "B_Kappa0"), ("\x00G0", "B_Gamma0"), ("\x00K0", "B_Kappa0"))

    def to_ref(src):
        for a, b in SUB:
            src = src.replace(a, b)
        return src
    n = 0
    for q, fn in mod.defs().items():
        if not isinstance(fn, ast.FunctionDef):
            continue
        C = f"{MMp}:{q}"
        binds = {w.targets[0].id: w.value for w in ast.walk(fn) if isinstance(w, ast.Assign) and len(w.targets) == 1 and isinstance(w.targets[0], ast.Name)}
        pairs = []
        for nm, v in binds.items():
            for ref in (nm.rstrip("_") + "0_", nm + "0", nm.rstrip("_") + "0"):
                if ref != nm and ref in binds:
                    pairs.append((nm, norm_src(v), ref, norm_src(binds[ref]), v))
        params = [a.arg for a in fn.args.args]
        for r in [w for w in ast.walk(fn) if isinstance(w, ast.Return) and isinstance(w.value, ast.Tuple) and len(w.value.elts) == 2]:
            a, b = w.value.elts if False else r.value.elts
            sa, sb = norm_src(a), norm_src(b)
            if any(p + "0" in params and p in sa for p in params) and any(p.endswith("0") and p in sb for p in params):
                pairs.append(("<return[0]>", sa, "<return[1]>", sb, r))
        for nm, sv, ref, sr, node in pairs:
            if not any(k in sv for k in ("B_Gamma", "B_Kappa")):
                continue
            n += 1
            if to_ref(sv) == sr:
                rep.ok(rule, C, f"`{ref} = {sr}` is `{nm} = {sv}` at the reference strain")
            else:
                rep.bad(rule, C, node, f"`{ref} = {sr[:50]}` is not the counterpart of `{nm} = {sv[:50]}` (that would be `{to_ref(sv)[:50]}`): a term built from their difference / ratio does not "
                        "vanish at a reference configuration for which the two functions differ (pre-sheared cross-sections: B_Gamma0 is a unit vector but not e_x), so that reference "
                        "reports strain energy and internal forces", f"{MMp}:{getattr(node, 'lineno', fn.lineno)}")
    if n < 2:
        rep.ok(rule, MMp, f"only {n} strain / reference-strain counterparts found", verdict="unknown", trivial=True)


def equivariance(ctx, rule="C10.R8"):
    """K20: what every interpolation kernel returns has the transformation type its role demands - position P, rotation L, both strains I."""
    from .. import equivar as EQ
    rep = ctx.rep
    mod = ctx.repo.module(CR).tree
    n = 0
    for cls in [c for c in ast.walk(mod) if isinstance(c, ast.ClassDef)]:
        for fn in cls.body:
            if not (isinstance(fn, ast.FunctionDef) and fn.name in ("_eval", "_deval")):
                continue
            C = f"{CR}:{cls.name}.{fn.name}"
            ty = EQ.Typer(fn)
            for ret in EQ.kernel_returns(fn):
                for (role, want), e in zip(EQ.EXPECT, ret.value.elts):
                    t = ty.ev(e)
                    if t is None or t[1] == "Z":
                        rep.ok(rule, C, f"{role} `{norm_src(e)}`: transformation type not derivable with the rules of K20 (no verdict)", verdict="unknown", trivial=True)
                    elif t[1] == want:
                        n += 1
                        rep.ok(rule, C, f"{role} `{norm_src(e)}` has type {want} under a superposed rigid motion")
                    else:
                        rep.bad(rule, C, ret, f"the {role} `{norm_src(e)}` has transformation type {t[1]} instead of {want}: it {EQ.MEANING.get(t[1], '?')} - "
                                + ("the strain measure, hence the stored energy and the internal forces, change when rod and loads are rotated together" if want == "I"
                                   else "the kernel output does not follow a rigid motion of the nodes"), f"{CR}:{ret.lineno}")
    return n


def run(ctx):
    rep = ctx.rep
    rep.rule("C10.R8", "equivariance typing (K20) of every interpolation kernel: the returned position transforms as a point, the rotation left-covariantly, both strains are invariant under a superposed rigid motion of the nodes", 20)
    equivariance(ctx)
    rep.rule("C10.R10", "material laws: a reference quantity is the SAME function of the reference strain as its current counterpart is of the current strain (lambda0 = norm(B_Gamma0) next to lambda = norm(B_Gamma)); only then do the differences f(strain) - f(reference strain) vanish at every reference configuration, pre-sheared ones included", 1)
    reference_counterparts(ctx)
    rep.rule("C10.R9", "memoised rod routines (kernels, and anything a change adds: residuals, forces) are keyed by every argument the result depends on: a compliance residual served from a cache keyed without la_c reports a stale non-zero value at the reference configuration", 8)
    from . import c26 as _c26
    _c26.r1_keys(ctx, _c26.find_sites(ctx), rule="C10.R9", want_cls=lambda ci: ci.rel.startswith("cardillo/rods/"))
    rep.rule("C10.R7", "rod routines do not modify in place what the memoised interpolation kernels (_eval / _deval / A_IB) hand out (K18): strains, energy and internal forces stay functions of the state", 10)
    from .. import cachepurity as _cp
    _cp.report(ctx, "C10.R7", ("cardillo/rods/",), floor_note=False)
    rep.rule("C10.R1", "strains have no data path from the interpolated position", 8)
    rep.rule("C10.R2", "consumers discard the position output of the kernels", 8)
    rep.rule("C10.R3", "same kernel / quadrature point / scaling for reference and current strains", 30)
    rep.rule("C10.R6", "rod kernels build every nodal / interpolated rotation with the normalising quaternion map: objectivity also at non-unit nodal quaternions", 15)
    from .c11 import normalising_rule
    normalising_rule(ctx, "C10.R6", lambda rel: rel.startswith("cardillo/rods/"), 15)
    rep.rule("C10.R5", "the reference strains are evaluated on the reference coordinates as supplied (self.Q is a verbatim copy; nothing rewrites it)", 3)
    reference_verbatim(ctx)
    rep.rule("C10.R4", "derivative weights in the position rows; argument order of the material law", 6)
    model = ctx.model
    # ---- R1
    for q in ("make_CosseratRod_Quat.CosseratRod_Quat", "make_CosseratRod_R12.CosseratRod_R12"):
        for m in ("_eval", "_deval"):
            fn = ctx.repo.get(CR, f"{q}.{m}")
            cfg = CFG(fn)
            rd = ReachingDefs(cfg)
            ret = [n for n in cfg.nodes if n.kind == "stmt" and isinstance(n.ast, ast.Return)][-1]
            outs = [norm_src(e) for e in ret.ast.value.elts]
            C = f"{CR}:{q}.{m}"
            for o in outs:
                if not (o.startswith("B_Gamma_bar") or o.startswith("B_Kappa_bar")):
                    continue
                nodes, params = rd.backward_slice(ret, names={o})
                used = set()
                for n in nodes:
                    if n is ret:
                        continue
                    used |= rd.du[n.id][2] | rd.du[n.id][0]
                leak = sorted(x for x in used if x in ("r_OP", "r_OP_qe"))
                if leak:
                    rep.bad("C10.R1", C, f"{o} <- {leak}", f"strain output `{o}` depends on the interpolated position {leak}: a rigid translation of all nodes changes the strains",
                            f"{CR}:{fn.lineno}")
                else:
                    rep.ok("C10.R1", C, f"`{o}` has no data path from r_OP (slice uses {sorted(x for x in used if x.startswith('r_OP'))})")
            # r_OP_xi is built with N_xi
            upd = [n for n in ast.walk(fn) if isinstance(n, ast.AugAssign) and norm_src(n.target) == "r_OP_xi"]
            if upd and all(norm_src(u.value).startswith("N_xi[node] *") for u in upd):
                rep.ok("C10.R1", C, f"r_OP_xi += {norm_src(upd[0].value)} (derivative weights)")
            else:
                rep.bad("C10.R1", C, upd[0] if upd else "r_OP_xi += N_xi[node] * r_OP_node", "the centerline tangent is not interpolated with the derivative weights N_xi",
                        f"{CR}:{fn.lineno}")
    # ---- R2/R3/R4 consumers
    for cname, m in CONSUMERS:
        c = model.cls(cname)
        fn = c.methods.get(m)
        if fn is None:
            raise AnalysisError(f"{cname}.{m} vanished")
        C = f"{c.rel}:{c.qual}.{m}"
        calls = [n for n in walk_no_nested(fn) if isinstance(n, ast.Call) and isinstance(n.func, ast.Attribute) and dotted(n.func.value) == "self" and n.func.attr in ("_eval", "_deval")]
        if not calls:
            rep.note(f"C10: {C} does not evaluate the kernels")
            continue
        call = calls[0]
        par = getattr(call, "_parent", None)
        # R2: first output discarded or unused
        if isinstance(par, ast.Assign) and isinstance(par.targets[0], ast.Tuple):
            first = par.targets[0].elts[0]
            nm = first.id if isinstance(first, ast.Name) else None
            used = nm not in (None, "_") and any(isinstance(x, ast.Name) and x.id == nm and isinstance(x.ctx, ast.Load) for x in ast.walk(fn))
            if used:
                rep.bad("C10.R2", C, par.targets[0], f"the interpolated position `{nm}` is used by {m}: internal forces/energies would change under translations", f"{c.rel}:{par.lineno}")
            else:
                rep.ok("C10.R2", C, f"position output `{nm}` of {call.func.attr} is not used")
        # R3: argument/index pairing
        loop = None
        p = par
        while p is not None and p is not fn:
            if isinstance(p, ast.For):
                loop = p
            p = getattr(p, "_parent", None)
        env = {}
        for n in walk_no_nested(fn):
            if isinstance(n, ast.Assign) and len(n.targets) == 1 and isinstance(n.targets[0], ast.Name):
                env.setdefault(n.targets[0].id, []).append(n.value)
        args = list(call.args)
        kw = {k.arg: k.value for k in call.keywords}
        a_xi = args[1] if len(args) > 1 else None
        xi_src = norm_src(env[a_xi.id][0]) if isinstance(a_xi, ast.Name) and a_xi.id in env else (norm_src(a_xi) if a_xi is not None else "")
        idx = xi_src[len("self.qp["):-1] if xi_src.startswith("self.qp[") else None
        if idx is None:
            rep.bad("C10.R3", C, call, f"the kernel is not evaluated at a quadrature point self.qp[el, i] (xi = {xi_src})", f"{c.rel}:{call.lineno}")
            continue
        aN = norm_src(kw.get("N", args[2] if len(args) > 2 else ast.Constant(None)))
        aNx = norm_src(kw.get("N_xi", args[3] if len(args) > 3 else ast.Constant(None)))
        if aN == f"self.N_r[{idx}]" and aNx == f"self.N_r_xi[{idx}]":
            rep.ok("C10.R3", C, f"{call.func.attr}(qe, self.qp[{idx}], self.N_r[{idx}], self.N_r_xi[{idx}])")
        else:
            rep.bad("C10.R3", C, call, f"shape functions ({aN}, {aNx}) do not belong to the quadrature point self.qp[{idx}]", f"{c.rel}:{call.lineno}")
        for attr in ("J", "B_Gamma0", "B_Kappa0"):
            reads = [n for n in walk_no_nested(fn) if isinstance(n, ast.Subscript) and dotted(n.value) == f"self.{attr}"]
            for r in reads:
                if norm_src(r.slice).strip("()") == idx:
                    rep.ok("C10.R3", C, f"self.{attr}[{idx}] of the same quadrature point")
                else:
                    rep.bad("C10.R3", C, r, f"self.{attr}[{norm_src(r.slice)}] does not belong to the quadrature point [{idx}] at which the strains are evaluated: "
                            f"the reference configuration is no longer strain-free", f"{c.rel}:{r.lineno}")
        # scaling of strains by J (displacement-based: B_Gamma = B_Gamma_bar / J ; mixed/constrained: B_Gamma_bar - J * B_Gamma0)
        Jn = next((k for k, v in env.items() if len(v) == 1 and norm_src(v[0]) == f"self.J[{idx}]"), None)
        for bar, ref in (("B_Gamma_bar", "B_Gamma0"), ("B_Kappa_bar", "B_Kappa0")):
            s_div = [n for n in walk_no_nested(fn) if isinstance(n, ast.BinOp) and isinstance(n.op, ast.Div) and norm_src(n.left) == bar]
            s_sub = [n for n in walk_no_nested(fn) if isinstance(n, ast.BinOp) and isinstance(n.op, ast.Sub) and norm_src(n.left) == bar]
            for n in s_div:
                if norm_src(n.right) == Jn:
                    rep.ok("C10.R3", C, f"{norm_src(n)} with {Jn} = self.J[{idx}]")
                else:
                    rep.bad("C10.R3", C, n, f"`{bar}` is scaled by `{norm_src(n.right)}` instead of the reference stretch self.J[{idx}]", f"{c.rel}:{n.lineno}")
            for n in s_sub:
                want = {f"{Jn} * {ref}", f"{ref} * {Jn}"}
                refname = next((k for k, v in env.items() if len(v) == 1 and norm_src(v[0]) == f"self.{ref}[{idx}]"), ref)
                want |= {f"{Jn} * {refname}", f"{refname} * {Jn}"}
                if norm_src(n.right) in want:
                    rep.ok("C10.R3", C, norm_src(n))
                else:
                    rep.bad("C10.R3", C, n, f"`{bar}` is compared with `{norm_src(n.right)}` instead of J * {ref}: the reference configuration is not residual-free", f"{c.rel}:{n.lineno}")
        # R4 material law argument order
        for n in walk_no_nested(fn):
            if isinstance(n, ast.Call) and isinstance(n.func, ast.Attribute) and dotted(n.func.value) == "self.material_model" and len(n.args) == 4:
                a = [norm_src(x) for x in n.args]
                if a == ["B_Gamma", "B_Gamma0", "B_Kappa", "B_Kappa0"]:
                    rep.ok("C10.R4", C, f"material_model.{n.func.attr}({', '.join(a)})")
                else:
                    rep.bad("C10.R4", C, n, f"material law called with ({', '.join(a)}) instead of (B_Gamma, B_Gamma0, B_Kappa, B_Kappa0)", f"{c.rel}:{n.lineno}")
    # ---- R3 reference strains
    pg = model.cls("CosseratRod_PetrovGalerkin")
    fn = pg.methods.get("set_reference_strains")
    if fn is None:
        raise AnalysisError("set_reference_strains vanished")
    C = f"{RB}:CosseratRod_PetrovGalerkin.set_reference_strains"
    src = {norm_src(n) for n in ast.walk(fn) if isinstance(n, ast.Assign)}
    need = ["J = norm(B_Gamma_bar)", "B_Gamma = B_Gamma_bar / J", "B_Kappa = B_Kappa_bar / J", "self.J[el, i] = J", "self.B_Gamma0[el, i] = B_Gamma", "self.B_Kappa0[el, i] = B_Kappa"]
    for s in need:
        if s in src:
            rep.ok("C10.R3", C, s)
        else:
            rep.bad("C10.R3", C, s, f"reference data is not defined as `{s}` (consumers scale with J = ||B_Gamma_bar(Q)|| and compare with B_Gamma_bar(Q)/J)", f"{RB}:{fn.lineno}")
    calls = [n for n in ast.walk(fn) if isinstance(n, ast.Call) and norm_src(n.func) == "self._eval"]
    qe_ok = any(isinstance(n, ast.Assign) and norm_src(n) == "qe = self.Q[self.elDOF[el]]" for n in ast.walk(fn))
    if calls and qe_ok and norm_src(calls[0]).startswith("self._eval(qe, qpi, N=self.N_r[el, i], N_xi=self.N_r_xi[el, i])"):
        rep.ok("C10.R3", C, "reference strains from the same kernel at Q: " + norm_src(calls[0]))
    else:
        rep.bad("C10.R3", C, calls[0] if calls else "self._eval(...)", "reference strains are not computed with the kernel used for the current strains, at Q and the same quadrature data",
                f"{RB}:{fn.lineno}")
    # ---- R4 weights of the position rows
    fi = model.cls("CosseratRodDisplacementBased").methods["f_int_el"]
    C = f"{RB}:CosseratRodDisplacementBased.f_int_el"
    rows = [n for n in ast.walk(fi) if isinstance(n, ast.AugAssign) and "nodalDOF_element_r_u" in norm_src(n.target)]
    if rows and all("self.N_r_xi[el, i, node]" in norm_src(r.value) and "self.N_r[el, i, node]" not in norm_src(r.value) for r in rows):
        rep.ok("C10.R4", C, f"position rows: {norm_src(rows[0])[:90]}")
    else:
        rep.bad("C10.R4", C, rows[0] if rows else "f_int_el[nodalDOF_r] -= N_r_xi * n", "contact forces enter the position rows with weights other than N_r_xi: the nodal forces no longer sum to zero",
                f"{RB}:{fi.lineno}")
    wc = model.cls("CosseratRodMixed").methods.get("W_c_el")
    if wc is not None:
        C = f"{RB}:CosseratRodMixed.W_c_el"
        rows = [n for n in ast.walk(wc) if isinstance(n, (ast.AugAssign, ast.Assign)) and "nodalDOF_element_r" in norm_src(n.targets[0] if isinstance(n, ast.Assign) else n.target)]
        if rows and all("N_r_xi" in norm_src(r.value) for r in rows):
            rep.ok("C10.R4", C, "position rows of W_c use N_r_xi")
        elif rows:
            rep.bad("C10.R4", C, rows[0], "W_c position rows do not use the derivative weights N_r_xi", f"{RB}:{rows[0].lineno}")


MUTANTS = [
    dict(id="c10-m1", canary=True, what="Quaternion _eval: shear strain from the position instead of the tangent", file=CR,
         old="            # dilatation and shear strains\n            B_Gamma_bar = A_IB.T @ r_OP_xi\n\n            # curvature, Rucker2018 (17)\n            B_Kappa_bar = T_SO3_quat(p, normalize=True) @ p_xi\n\n            return r_OP, A_IB, B_Gamma_bar, B_Kappa_bar",
         new="            # dilatation and shear strains\n            B_Gamma_bar = A_IB.T @ (r_OP_xi + 0 * r_OP)\n\n            # curvature, Rucker2018 (17)\n            B_Kappa_bar = T_SO3_quat(p, normalize=True) @ p_xi\n\n            return r_OP, A_IB, B_Gamma_bar, B_Kappa_bar", expect="C10.R1"),
    dict(id="c10-m2", canary=True, what="f_int_el scales strains with the stretch of the neighbouring quadrature point", file=RB,
         old="            qwi = self.qw[el, i]\n            J = self.J[el, i]\n            B_Gamma0 = self.B_Gamma0[el, i]", new="            qwi = self.qw[el, i]\n            J = self.J[el, 0]\n            B_Gamma0 = self.B_Gamma0[el, i]", expect="C10.R3"),
    dict(id="c10-m3", what="c_el compares with the unscaled reference strain", file=RB,
         old="                    (Ji * C_n_inv @ B_n - (B_Gamma_bar - Ji * B_Gamma0)),", new="                    (Ji * C_n_inv @ B_n - (B_Gamma_bar - B_Gamma0)),", expect="C10.R3"),
    dict(id="c10-m4", what="reference curvature stored unscaled", file=RB,
         old="                B_Kappa = B_Kappa_bar / J\n\n                # safe precomputed quantities for later", new="                B_Kappa = B_Kappa_bar\n\n                # safe precomputed quantities for later", expect="C10.R3"),
    dict(id="c10-m5", what="f_int_el distributes contact forces with N_r", file=RB,
         old="                f_int_el[self.nodalDOF_element_r_u[node]] -= (\n                    self.N_r_xi[el, i, node] * n_qwi\n                )", new="                f_int_el[self.nodalDOF_element_r_u[node]] -= (\n                    self.N_r[el, i, node] * n_qwi\n                )", expect="C10.R4"),
    dict(id="c10-m6", what="E_pot_el passes reference and current curvature swapped", file=RB,
         old="                self.material_model.potential(B_Gamma, B_Gamma0, B_Kappa, B_Kappa0)", new="                self.material_model.potential(B_Gamma, B_Gamma0, B_Kappa0, B_Kappa)", expect="C10.R4"),
    dict(id="c10-m7", what="E_pot_el adds a position dependent term", file=RB,
         old="            _, _, B_Gamma_bar, B_Kappa_bar = self._eval(\n                qe, qpi, N=self.N_r[el, i], N_xi=self.N_r_xi[el, i]\n            )\n\n            # axial and shear strains\n            B_Gamma = B_Gamma_bar / Ji\n\n            # torsional and flexural strains\n            B_Kappa = B_Kappa_bar / Ji\n\n            # evaluate strain energy function",
         new="            r_OP, _, B_Gamma_bar, B_Kappa_bar = self._eval(\n                qe, qpi, N=self.N_r[el, i], N_xi=self.N_r_xi[el, i]\n            )\n\n            # axial and shear strains\n            B_Gamma = B_Gamma_bar / Ji + 0 * r_OP\n\n            # torsional and flexural strains\n            B_Kappa = B_Kappa_bar / Ji\n\n            # evaluate strain energy function", expect="C10.R2"),
    dict(id="c10-m8", what="R12 tangent interpolated with N instead of N_xi", file=CR,
         old="                r_OP += N[node] * r_OP_node\n                r_OP_xi += N_xi[node] * r_OP_node\n\n            # interpolate transformation matrix and its derivative\n            A_IB = np.zeros((3, 3), dtype=qe.dtype)\n            A_IB_xi = np.zeros((3, 3), dtype=qe.dtype)\n            for node in range(self.nnodes_element_p):\n                A_IB_node = Exp_SO3_quat(qe[self.nodalDOF_element_p[node]])",
         new="                r_OP += N[node] * r_OP_node\n                r_OP_xi += N[node] * r_OP_node\n\n            # interpolate transformation matrix and its derivative\n            A_IB = np.zeros((3, 3), dtype=qe.dtype)\n            A_IB_xi = np.zeros((3, 3), dtype=qe.dtype)\n            for node in range(self.nnodes_element_p):\n                A_IB_node = Exp_SO3_quat(qe[self.nodalDOF_element_p[node]])", expect="C10.R1"),
]
MUTANTS += [
    dict(id="c10-r5-seed", canary=True, what="[seeded by sub-agent] set_reference_strains normalises the nodal quaternions of the stored reference before evaluating the strains", file="cardillo/rods/_base.py",
         old="        self.Q = Q.copy()\n\n        # precompute values of the reference configuration",
         new="        self.Q = Q.copy()\n        for node in range(self.nnodes_p):\n            p = self.Q[self.nodalDOF_p[node]]\n            self.Q[self.nodalDOF_p[node]] = p / norm(p)\n\n        # precompute values of the reference configuration", expect="C10.R5"),
]
MUTANTS += [
    dict(id="c10-r6-seed", canary=True, what="[seeded by sub-agent] SE3 interpolation builds the nodal rotations without normalising the nodal quaternion", file=CR,
         old="                A_IB_node = Exp_SO3_quat(qe[self.nodalDOF_element_p[node]])", new="                A_IB_node = Exp_SO3_quat(qe[self.nodalDOF_element_p[node]], normalize=False)", expect="C10.R6", optional=True),
]
NEUTRAL = [
    dict(id="c10-n-r5", what="set_reference_strains stores the reference through np.array", file="cardillo/rods/_base.py",
         old="        self.Q = Q.copy()\n\n        # precompute values of the reference configuration", new="        self.Q = np.array(Q, dtype=float)\n\n        # precompute values of the reference configuration"),]
RB_ = "cardillo/rods/_base.py"
MUTANTS += [
    dict(id="c10-r7-seed", canary=True, what="[seeded by sub-agent] E_pot_el divides the strains returned by the memoised _eval in place", file=RB_,
         old="            _, _, B_Gamma_bar, B_Kappa_bar = self._eval(\n                qe, qpi, N=self.N_r[el, i], N_xi=self.N_r_xi[el, i]\n            )\n\n            # axial and shear strains\n            B_Gamma = B_Gamma_bar / Ji\n\n            # torsional and flexural strains\n            B_Kappa = B_Kappa_bar / Ji\n",
         new="            _, _, B_Gamma, B_Kappa = self._eval(\n                qe, qpi, N=self.N_r[el, i], N_xi=self.N_r_xi[el, i]\n            )\n\n            B_Gamma /= Ji\n            B_Kappa /= Ji\n", expect="C10.R7"),
]

_KAPPA = '            d1, d2, d3 = A_IB.T\n            d1_xi, d2_xi, d3_xi = A_IB_xi.T\n            B_Kappa_bar = np.array(\n                [\n                    0.5 * (d3 @ d2_xi - d2 @ d3_xi),\n                    0.5 * (d1 @ d3_xi - d3 @ d1_xi),\n                    0.5 * (d2 @ d1_xi - d1 @ d2_xi),\n                ]\n            )\n\n            return r_OP, A_IB, B_Gamma_bar, B_Kappa_bar\n'
_IMP = ('from cardillo.math import (\n    norm,\n    cross3,\n', 'from cardillo.math import (\n    norm,\n    cross3,\n    skew2ax,\n')
MUTANTS += [
    dict(id="c10-r8-seed", canary=True, what="[seeded by sub-agent] R12 kernel: curvature 'simplified' to skew2ax(A_IB_xi @ A_IB.T) - the spatial, not the material curvature", file=CR,
         edits=[(CR,) + _IMP, (CR, _KAPPA, "            B_Kappa_bar = skew2ax(A_IB_xi @ A_IB.T)\n\n            return r_OP, A_IB, B_Gamma_bar, B_Kappa_bar\n")], expect="C10.R8"),
    dict(id="c10-r8-gamma", what="R12 kernel: shear strain projected with A_IB instead of A_IB.T", file=CR,
         old="            B_Gamma_bar = A_IB.T @ r_OP_xi\n\n            # torsional and flexural strains\n            d1, d2, d3 = A_IB.T\n            d1_xi, d2_xi, d3_xi = A_IB_xi.T\n            B_Kappa_bar = np.array(\n                [\n                    0.5 * (d3 @ d2_xi - d2 @ d3_xi),\n                    0.5 * (d1 @ d3_xi - d3 @ d1_xi),\n                    0.5 * (d2 @ d1_xi - d1 @ d2_xi),\n                ]\n            )\n\n            return",
         new="            B_Gamma_bar = A_IB @ r_OP_xi\n\n            # torsional and flexural strains\n            d1, d2, d3 = A_IB.T\n            d1_xi, d2_xi, d3_xi = A_IB_xi.T\n            B_Kappa_bar = np.array(\n                [\n                    0.5 * (d3 @ d2_xi - d2 @ d3_xi),\n                    0.5 * (d1 @ d3_xi - d3 @ d1_xi),\n                    0.5 * (d2 @ d1_xi - d1 @ d2_xi),\n                ]\n            )\n\n            return", expect="C10.R8"),
    dict(id="c10-r8-se3", what="SE3 kernel: relative transformation composed in the wrong order (H_IK1 @ H_IK0_inv)", file=CR,
         old="            H_K0K1 = H_IK0_inv @ H_IK1\n\n            # compute relative screw\n            h_K0K1 = Log_SE3(H_K0K1)\n\n            # find element number containing xi",
         new="            H_K0K1 = H_IK1 @ H_IK0_inv\n\n            # compute relative screw\n            h_K0K1 = Log_SE3(H_K0K1)\n\n            # find element number containing xi", expect="C10.R8"),
]
NEUTRAL += [
    dict(id="c10-n-r8", canary=True, what="R12 kernel: curvature as skew2ax(A_IB.T @ A_IB_xi) (the same material curvature)", file=CR,
         edits=[(CR,) + _IMP, (CR, _KAPPA, "            B_Kappa_bar = skew2ax(A_IB.T @ A_IB_xi)\n\n            return r_OP, A_IB, B_Gamma_bar, B_Kappa_bar\n")]),
]

MUTANTS += [
    dict(id="c10-r9-seed", canary=True, what="[seeded by sub-agent] a rod routine that depends on la_c memoised with the rigid-body key pattern hashkey(t, *q)", file='cardillo/rods/_base.py',
         old="    def h_u(self, t, q, u):\n        coo = CooMatrix((self.nu, self.nu))\n",
         new="    @cachedmethod(lambda self: self._hu_cache, key=lambda self, t, q, u: hashkey(t, *q))\n    def h_u(self, t, q, u):\n        coo = CooMatrix((self.nu, self.nu))\n", expect="C10.R9"),
]

MUTANTS += [
    dict(id="c10-r8-antipode", canary=True, what="[seeded by sub-agent] Quaternion kernel: nodal quaternions with negative real part are replaced by their antipode before interpolation (absolute, not relative, hemisphere test)", file=CR,
         old="                p_node = qe[self.nodalDOF_element_p[node]]\n                p += N[node] * p_node\n", new="                p_node = qe[self.nodalDOF_element_p[node]]\n                if p_node[0] < 0:\n                    p_node = -p_node\n                p += N[node] * p_node\n", expect="C10.R8"),
]

MUTANTS += [
    dict(id="c10-r10-seed", canary=True, every=True, what="[seeded by sub-agent] Harsch2021 takes the reference stretch as B_Gamma0[0] (assumes the reference strain is e_x) next to lambda = norm(B_Gamma)", file='cardillo/rods/_material_models.py',
         old='        lambda_ = norm(B_Gamma)\n        lambda0_ = norm(B_Gamma0)\n', new="        lambda_ = norm(B_Gamma)\n        lambda0_ = B_Gamma0[0]\n", expect="C10.R10"),
]
