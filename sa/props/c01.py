"""C01  Quaternion rotation kernel is algebraically exact.

Structural clauses decided (cardillo/math/rotations.py, algebra.py), by scaling-degree inference under P -> s P (engine K6):
 R1 scale invariance     the normalising rotation map Exp_SO3_quat(P, normalize=True) is termwise homogeneous of degree 0 in P
                         ("does not change when P is scaled")
 R2 degree relations     the stated derivative Exp_SO3_quat_P has degree -1 and T_SO3_quat_P degree -2 (Euler's relation for
                         derivatives of homogeneous maps); T_SO3_quat has degree -1 and its stated inverse T_SO3_inv_quat degree +1
                         (their product has degree 0, necessary for "multiply to the identity"); T_SO3_inv_quat_P has degree 0
 R3 bilinearity          quatprod(P, Q) has degree dP + dQ in every component (necessary for the composition homomorphism to be
                         compatible with the scale invariance); the helpers ax2skew, ax2skew_squared, cross3, skew2ax have the
                         degrees d, 2d, d1 + d2, d
 R5 orientation convention
                         (K12 signed expansion; coefficients abstracted to signs) the four kernels that fix the handedness of the
                         parametrisation agree: with h(f) = sign of the skew/cross term relative to the p0 term,
                             h(quatprod) = h(T_SO3_inv_quat) = -h(T_SO3_quat) = h(Exp_SO3_quat)
                         and the scalar-like parts carry the opposite sign (z0 = p0 q0 - p.q, first row/column -p).  Why necessary:
                         T T_inv = I needs the term linear in skew(p) to cancel (equal h in the formulas = opposite written
                         signs); P_dot = T_inv w is half the product P o (0, w), so T_inv repeats quatprod's vector part; the
                         spin identity R_dot = R skew(w) at second order in p ties that sign to the sign of p0 skew(p) in the
                         rotation matrix; the same second-order expansion of R(P o Q) = R(P) R(Q) ties quatprod's cross term to it.
 R4 total normalisation   every division on the normalising path is by an expression that is provably positive for every nonzero P (P @ P,
                         p0*p0 + p@p, norm(P), 1 + x@x, products / powers / locals of such): "for every nonzero quaternion"; a division by
                         p0 alone (Cayley / Rodrigues-parameter form) is undefined on the half turns
"""
from __future__ import annotations

import ast
from fractions import Fraction

from ..core import AnalysisError, dotted, norm_src
from ..degrees import Interp, Z, TOP, is_ground, fmt

EXPLANATION = ("Abstract interpretation of the quaternion kernels over the degree domain with the boolean flag normalize "
               "constant-propagated; every +, stacking and block store inside the kernels is a unification obligation.")
NOT_DECIDED = ("orthonormality, det = +1, the homomorphism itself, T * T_inv = I, the spin identity and exactness of the derivative: "
               "they need the values (exact symbolic evaluation is outside this technique family, DESIGN §1.2).")
ASSUMPTIONS = ["eye3 and ax2skew_a() are constants (degree 0)"]
BLIND_SPOTS = ["sign or coefficient errors that keep every term at the right degree (e.g. a flipped sign of ax2skew(p))"]
ROT, ALG = "cardillo/math/rotations.py", "cardillo/math/algebra.py"
F = Fraction


def run(ctx):
    rep = ctx.rep
    rep.rule("C01.R1", "Exp_SO3_quat is scale free on the normalising path", 1)
    rep.rule("C01.R2", "degree relations of tangent maps and stated derivatives", 5)
    rep.rule("C01.R3", "bilinearity of quatprod and degrees of the algebra helpers", 8)
    rep.rule("C01.R4", "every division on the normalising path is by a form that is positive for every nonzero quaternion (the maps are total on R^4 without 0)", 3)
    rep.rule("C01.R5", "orientation convention shared by quatprod, T_SO3_quat, T_SO3_inv_quat and Exp_SO3_quat (signed expansion)", 5)
    rep.rule("C01.R6", "no fractional value is stored into a buffer typed by the quaternion argument (K17: silent truncation for integer-typed quaternions)", 6)
    from .. import dtypes
    rot, alg = ctx.repo.module(ROT), ctx.repo.module(ALG)
    for s_ in rot.tree.body + alg.tree.body:
        if isinstance(s_, ast.FunctionDef) and ("quat" in s_.name or s_.name in ("ax2skew", "ax2skew_squared", "cross3")):
            rel_ = ROT if s_ in rot.tree.body else ALG
            outs, bufs = dtypes.narrowing_stores(s_)
            seen_ = set()
            for st, b, c, why in outs:
                if id(st) in seen_:
                    continue
                seen_.add(id(st))
                rep.bad("C01.R6", f"{rel_}:{s_.name}", st, f"`{norm_src(st)[:80]}` stores a fractional value ({why}) into `{b}`, which is allocated with the dtype of the argument `{c}`: "
                        f"for an integer-typed quaternion (np.array([1, 0, 0, 0])) the store truncates silently and the map is no longer the algebraic one", f"{rel_}:{st.lineno}")
            if not outs:
                rep.ok("C01.R6", f"{rel_}:{s_.name}", f"{len(bufs)} buffer(s) typed by an argument, none receives a fractional store" if bufs else "no buffer typed by an argument")
    rep.rule("C01.R7", "the rotation kernel is stateless: no function of math/rotations.py or math/algebra.py writes module-level state (a remembered last evaluation is keyed by a caller's array)", 10)
    for mod_, rel_ in ((rot, ROT), (alg, ALG)):
        glob = {}
        for st_ in mod_.tree.body:
            if isinstance(st_, ast.Assign):
                for t_ in st_.targets:
                    if isinstance(t_, ast.Name):
                        glob[t_.id] = st_
        for f_ in [x for x in mod_.tree.body if isinstance(x, ast.FunctionDef)]:
            alias_ = {}
            for w_ in ast.walk(f_):
                if isinstance(w_, ast.Assign) and len(w_.targets) == 1 and isinstance(w_.targets[0], ast.Name) and isinstance(w_.value, ast.Name) and w_.value.id in glob:
                    alias_[w_.targets[0].id] = w_.value.id
            hits_ = []
            for w_ in ast.walk(f_):
                if isinstance(w_, ast.Global):
                    hits_.append((w_, w_.names[0]))
                tg_ = w_.targets if isinstance(w_, ast.Assign) else ([w_.target] if isinstance(w_, ast.AugAssign) else [])
                for t_ in tg_:
                    b_ = t_
                    while isinstance(b_, (ast.Subscript, ast.Attribute)):
                        b_ = b_.value
                    if isinstance(b_, ast.Name) and not isinstance(t_, ast.Name) and (b_.id in glob or b_.id in alias_):
                        hits_.append((w_, alias_.get(b_.id, b_.id)))
                if isinstance(w_, ast.Call) and isinstance(w_.func, ast.Attribute) and w_.func.attr in ("update", "append", "extend", "setdefault", "pop", "clear", "add") \
                        and isinstance(w_.func.value, ast.Name) and (w_.func.value.id in glob or w_.func.value.id in alias_):
                    hits_.append((w_, alias_.get(w_.func.value.id, w_.func.value.id)))
            if hits_:
                w_, g_ = hits_[0]
                rep.bad("C01.R7", f"{rel_}:{f_.name}", w_, f"`{norm_src(w_)[:70]}` writes the module-level object `{g_}`: the map then depends on earlier calls; a remembered evaluation whose key is the "
                        "caller's array object compares that memory with itself after an in-place update (P *= 3, P[:] = ...) and hands back the derivative of the OLD quaternion",
                        f"{rel_}:{w_.lineno}")
            else:
                rep.ok("C01.R7", f"{rel_}:{f_.name}", "writes no module-level state")
    fns = {}
    for mod in (alg, rot):
        for s in mod.tree.body:
            if isinstance(s, ast.FunctionDef):
                fns[s.name] = s
    consts = {"eye3": F(0)}
    for need in ("Exp_SO3_quat", "Exp_SO3_quat_P", "T_SO3_quat", "T_SO3_inv_quat", "T_SO3_quat_P", "T_SO3_inv_quat_P", "quatprod", "ax2skew", "ax2skew_squared", "cross3", "skew2ax"):
        if need not in fns:
            raise AnalysisError(f"kernel {need} vanished from math/rotations.py / algebra.py")

    def check(rule, name, argd, flags, want, what):
        it = Interp(fns, module_consts=consts)
        d = it.run(name, argd, dict(flags))
        rel = ROT if name in {s.name for s in rot.tree.body if isinstance(s, ast.FunctionDef)} else ALG
        C = f"{rel}:{name}"
        if it.violations:
            for v in it.violations:
                rep.bad(rule, C, v.node, f"under P -> s P: {v.msg} in `{norm_src(v.node)[:100]}` ({what})", f"{rel}:{getattr(v.node, 'lineno', 0)}")
            return
        if d == want:
            rep.ok(rule, C, f"degree {fmt(d)}: {what}")
        elif is_ground(d) or d == Z:
            rep.bad(rule, C, f"{name}: degree {fmt(d)}", f"scales with degree {fmt(d)} in the quaternion instead of {want}: {what}", f"{rel}:{fns[name].lineno}")
        elif len({fmt(r) for r in getattr(it, "returns", {}).get(it._last_key, []) if not isinstance(r, tuple) and (is_ground(r) or r == Z)} - {fmt(Z)}) > 1:
            degs = sorted({fmt(r) for r in it.returns[it._last_key] if not isinstance(r, tuple) and is_ground(r)})
            rep.bad(rule, C, f"{name}: return paths of degree {', '.join(degs)}", f"under P -> s P the return paths of {name} scale with DIFFERENT degrees ({', '.join(degs)}): a special case "
                    f"(an early return before the normalisation, a fast path) is not homogeneous of degree {fmt(want)} like the general formula ({what})", f"{rel}:{fns[name].lineno}")
        elif it.branch_conflicts:
            ifn, k, a, b = it.branch_conflicts[0]
            rep.bad(rule, C, ifn.test, f"under P -> s P the two sides of the value-dependent test `{norm_src(ifn.test)[:60]}` leave `{k}` with different scaling degrees "
                    f"({fmt(a)} vs {fmt(b)}): {name} is not homogeneous of degree {fmt(want)} ({what})", f"{rel}:{ifn.lineno}")
        else:
            rep.bad(rule, C, f"{name}: degree not inferred", f"the degree of `{name}` could not be inferred any more ({fmt(d)}); {what} is undecided", f"{rel}:{fns[name].lineno}") \
                if False else rep.note(f"{rule}: degree of {name} not inferred ({fmt(d)})")

    T = {"normalize": True}
    check("C01.R1", "Exp_SO3_quat", {"P": F(1)}, T, F(0), "rotation matrix must not change when P is scaled")
    check("C01.R2", "Exp_SO3_quat_P", {"P": F(1)}, T, F(-1), "derivative of a degree-0 map has degree -1")
    check("C01.R2", "T_SO3_quat", {"P": F(1)}, T, F(-1), "tangent map of the normalised parametrisation")
    check("C01.R2", "T_SO3_inv_quat", {"P": F(1)}, T, F(1), "stated inverse of a degree -1 map must have degree +1")
    check("C01.R2", "T_SO3_quat_P", {"P": F(1)}, T, F(-2), "derivative of a degree -1 map has degree -2")
    check("C01.R2", "T_SO3_inv_quat_P", {"P": F(1)}, T, F(0), "derivative of a degree +1 (linear) map is constant")
    for (a, b) in ((1, 0), (0, 1), (1, 1), (2, 3)):
        check("C01.R3", "quatprod", {"P": F(a), "Q": F(b)}, {}, F(a + b), f"quaternion product is bilinear (dP={a}, dQ={b})")
    check("C01.R3", "ax2skew", {"a": F(1)}, {}, F(1), "ax2skew is linear")
    check("C01.R3", "ax2skew_squared", {"a": F(1)}, {}, F(2), "ax2skew_squared is quadratic")
    check("C01.R3", "skew2ax", {"A": F(1)}, {}, F(1), "skew2ax is linear")
    for (a, b) in ((1, 0), (1, 1)):
        check("C01.R3", "cross3", {"a": F(a), "b": F(b)}, {}, F(a + b), f"cross product is bilinear (da={a}, db={b})")
    orientation(ctx, fns)
    # R4 normaliser: total on R^4 without 0
    for name in ("Exp_SO3_quat", "T_SO3_quat", "Exp_SO3_quat_P", "T_SO3_quat_P"):
        fn = fns[name]
        ifs = [n for n in ast.walk(fn) if isinstance(n, ast.If) and norm_src(n.test) == "normalize"]
        C = f"{ROT}:{name}"
        if not ifs:
            rep.bad("C01.R4", C, "if normalize:", "the normalising branch vanished", f"{ROT}:{fn.lineno}")
            continue
        loc = {n.targets[0].id: n.value for n in ast.walk(fn) if isinstance(n, ast.Assign) and len(n.targets) == 1 and isinstance(n.targets[0], ast.Name)}
        dens = []
        for st in ifs[0].body:
            for w in ast.walk(st):
                if isinstance(w, ast.BinOp) and isinstance(w.op, ast.Div):
                    dens.append(w.right)
                if isinstance(w, ast.AugAssign) and isinstance(w.op, ast.Div):
                    dens.append(w.value)
        # denominators reached through locals defined in the branch (P2_inv = 1 / (P @ P))
        if not dens:
            rep.bad("C01.R4", C, ifs[0].body[0], "the normalising branch divides by nothing: the map cannot be scale free", f"{ROT}:{ifs[0].lineno}")
            continue
        for d in dens:
            v = _definite(d, loc)
            if v:
                rep.ok("C01.R4", C, f"normalising branch divides by `{norm_src(d)}`, positive for every nonzero P ({v})")
            else:
                rep.bad("C01.R4", C, d, f"the normalising branch divides by `{norm_src(d)}`, which is not a positive definite form of the quaternion (it vanishes for nonzero P, e.g. on "
                        "p0 = 0): the rotation map is not defined for every nonzero quaternion", f"{ROT}:{d.lineno}")


def _definite(d, loc, depth=0):
    """reason string when expression d is provably > 0 for every nonzero P = (p0, p); None otherwise.
    P @ P, norm(P)**2, p0*p0 + p@p (all components squared), 1 + x@x, products / powers of such, locals bound to such."""
    if depth > 5:
        return None
    t = norm_src(d)
    if isinstance(d, ast.BinOp) and isinstance(d.op, ast.MatMult) and norm_src(d.left) == norm_src(d.right) == "P":
        return "P @ P"
    if isinstance(d, ast.Call) and (dotted(d.func) or "").split(".")[-1] in ("norm", "sqrt") and d.args:
        a = d.args[0]
        if norm_src(a) == "P" or _definite(a, loc, depth + 1):
            return "norm of P"
    if isinstance(d, ast.BinOp) and isinstance(d.op, ast.Pow) and isinstance(d.right, ast.Constant) and isinstance(d.right.value, (int, float)):
        return _definite(d.left, loc, depth + 1)
    if isinstance(d, ast.BinOp) and isinstance(d.op, (ast.Mult,)):
        l, r = _definite(d.left, loc, depth + 1), _definite(d.right, loc, depth + 1)
        if l and r:
            return f"product of ({l}) and ({r})"
        if l and isinstance(d.right, ast.Constant) and d.right.value > 0 or r and isinstance(d.left, ast.Constant) and d.left.value > 0:
            return l or r
    if isinstance(d, ast.BinOp) and isinstance(d.op, ast.Add):
        parts = []
        def flat(e):
            if isinstance(e, ast.BinOp) and isinstance(e.op, ast.Add):
                flat(e.left); flat(e.right)
            else:
                parts.append(e)
        flat(d)
        sq = set()
        pos_const = False
        for e in parts:
            if isinstance(e, ast.Constant) and isinstance(e.value, (int, float)) and e.value > 0:
                pos_const = True
            elif isinstance(e, ast.BinOp) and isinstance(e.op, (ast.Mult, ast.MatMult)) and norm_src(e.left) == norm_src(e.right):
                sq.add(norm_src(e.left))
            elif isinstance(e, ast.BinOp) and isinstance(e.op, ast.Pow) and isinstance(e.right, ast.Constant) and e.right.value == 2:
                sq.add(norm_src(e.left))
            else:
                return None
        if pos_const:
            return "positive constant plus squares"
        if {"p0", "p"} <= sq or "P" in sq:
            return "sum of the squares of all components"
        return None
    if isinstance(d, ast.Name) and d.id in loc:
        return _definite(loc[d.id], loc, depth + 1)
    return None


def _ret(fn):
    r = [n.value for n in ast.walk(fn) if isinstance(n, ast.Return) and n.value is not None]
    return r[-1] if r else None


def orientation(ctx, fns):
    from ..signedterms import Expander, find
    rep = ctx.rep
    hs = {}

    def one(sign_list):
        return sign_list[0] if len(sign_list) == 1 else None

    # ---- quatprod: return np.array([z0, *z])
    fn = fns["quatprod"]
    ex = Expander(fn)
    z0 = ex.expand(ast.Name("z0", ast.Load())) if "z0" in ex.local else None
    z = ex.expand(ast.Name("z", ast.Load())) if "z" in ex.local else None
    C = f"{ROT}:quatprod"
    if z0 is None or z is None:
        rep.note("C01.R5: quatprod: z0 / z not found in a readable form (no verdict)")
    else:
        s00, spq = one(find(z0, "p0", "q0")), one(find(z0, "p", "q"))
        s1, s2 = one(find(z, "p0", "q")), one(find(z, "p", "q0"))
        sc = one(find(z, "q", "skew(p)"))
        sc_rev = one(find(z, "p", "skew(q)"))
        cross = sc if sc is not None else (-sc_rev if sc_rev is not None else None)
        if None in (s00, spq, s1, s2, cross):
            rep.note(f"C01.R5: quatprod: terms not all identified (z0: {z0}, z: {z}) (no verdict)")
        else:
            if not (s1 == s2 == s00 and spq == -s00):
                rep.bad("C01.R5", C, ex.local["z0"][0], f"quaternion product: p0 q0 ({s00:+d}), p.q ({spq:+d}), p0 q ({s1:+d}), q0 p ({s2:+d}) are not the signs of "
                        "(p0 q0 - p.q, p0 q + q0 p + ...): the product is not norm-multiplicative, unit quaternions do not compose to rotations", f"{ROT}:{fn.lineno}")
            else:
                rep.ok("C01.R5", C, "scalar part p0 q0 - p.q, vector part p0 q + q0 p + h p x q")
            hs["quatprod"] = (cross * s00, ex.local["z"][0])
    # ---- T_SO3_inv_quat / T_SO3_quat: stacked [-p ; p0 I +- skew(p)]
    for name in ("T_SO3_inv_quat", "T_SO3_quat"):
        fn = fns[name]
        ex = Expander(fn)
        r = _ret(fn)
        t = ex.expand(r) if r is not None else None
        C = f"{ROT}:{name}"
        if t is None:
            rep.note(f"C01.R5: {name}: return value not expandable (no verdict)")
            continue
        sp, s0, ss = one(find(t, "p", block=0)), one(find(t, "p0", block=1)), one(find(t, "skew(p)", block=1))
        if None in (sp, s0, ss):
            rep.note(f"C01.R5: {name}: blocks not identified in {t} (no verdict)")
            continue
        if sp != -s0:
            rep.bad("C01.R5", C, r, f"the vector block {sp:+d} p and the p0 block {s0:+d} p0 I must have opposite signs ([-p | p0 I -+ skew(p)])", f"{ROT}:{fn.lineno}")
        else:
            rep.ok("C01.R5", C, f"blocks [{sp:+d} p | {s0:+d} p0 I {ss:+d} skew(p)]")
        hs[name] = (ss * s0, r)
    # ---- Exp_SO3_quat: eye3 + 2 (p0 skew(p) + skew(p)^2) / (P.P)
    fn = fns["Exp_SO3_quat"]
    ex = Expander(fn)
    r = _ret(fn)
    t = ex.expand(r) if r is not None else None
    C = f"{ROT}:Exp_SO3_quat"
    if t is None:
        rep.note("C01.R5: Exp_SO3_quat: return value not expandable (no verdict)")
    else:
        si, sl, sq = one(find(t)), one(find(t, "p0", "skew(p)")), one(find(t, "skew2(p)"))
        if None in (si, sl, sq):
            rep.note(f"C01.R5: Exp_SO3_quat: terms not identified in {t} (no verdict)")
        else:
            if si != sq:
                rep.bad("C01.R5", C, r, f"identity ({si:+d}) and skew(p)^2 ({sq:+d}) must enter with the same sign (I + 2 skew(p)^2 is the symmetric part of a rotation)", f"{ROT}:{fn.lineno}")
            else:
                rep.ok("C01.R5", C, f"I {sq:+d} 2 skew(p)^2 {sl:+d} 2 p0 skew(p)")
            hs["Exp_SO3_quat"] = (sl * si, r)
    want = {"quatprod": 1, "T_SO3_inv_quat": 1, "T_SO3_quat": -1, "Exp_SO3_quat": 1}
    got = {k: v[0] * want[k] for k, v in hs.items()}
    if len(got) >= 2:
        vals = sorted(set(got.values()))
        if len(vals) == 1:
            rep.ok("C01.R5", f"{ROT}:quaternion kernels", f"orientation bit {vals[0]:+d} shared by {sorted(got)} (T_SO3_quat with the opposite written sign)")
        else:
            # the odd one out (majority = the convention of the code base)
            major = max(vals, key=lambda v: sum(1 for x in got.values() if x == v))
            for k, v in sorted(got.items()):
                if v != major:
                    rep.bad("C01.R5", f"{ROT}:{k}", hs[k][1], f"`{k}` uses the opposite orientation convention from {sorted(x for x in got if got[x] == major)}: the sign of its "
                            "skew / cross-product term is flipped, so one of: composition R(P o Q) = R(P) R(Q), T T_inv = I, or the body-fixed spin identity fails",
                            f"{ROT}:{fns[k].lineno}")


MUTANTS = [
    dict(id="c01-m1", canary=True, what="Exp_SO3_quat normalises with the norm instead of the squared norm", file=ROT,
         old="    matrix = 2 * (p0 * ax2skew(p) + ax2skew_squared(p))\n    if normalize:\n        matrix /= P @ P\n    return eye3 + matrix",
         new="    matrix = 2 * (p0 * ax2skew(p) + ax2skew_squared(p))\n    if normalize:\n        matrix /= np.sqrt(P @ P)\n    return eye3 + matrix", expect=["C01.R1", "C01.R4"]),
    dict(id="c01-m2", canary=True, what="Exp_SO3_quat_P: inner derivative with P2_inv instead of P2_inv**2", file=ROT,
         old="        matrix_P += np.multiply.outer(matrix, -2 * P2_inv**2 * P)\n    return matrix_P", new="        matrix_P += np.multiply.outer(matrix, -2 * P2_inv * P)\n    return matrix_P", expect="C01.R2"),
    dict(id="c01-m3", what="quatprod: scalar part loses a factor", file=ROT,
         old="    z0 = p0 * q0 - p @ q", new="    z0 = p0 - p @ q", expect="C01.R3"),
    dict(id="c01-m4", what="T_SO3_quat: vector column not scaled with the quaternion", file=ROT,
         old="    matrix = 2 * np.hstack((-p[:, None], p0 * eye3 - ax2skew(p)))\n    if normalize:\n        matrix /= P @ P\n    return matrix",
         new="    matrix = 2 * np.hstack((-p[:, None], eye3 - ax2skew(p)))\n    if normalize:\n        matrix /= P @ P\n    return matrix", expect="C01.R2"),
    dict(id="c01-m5", what="ax2skew_squared: one entry linear instead of quadratic", file=ALG,
         old="        [-a2**2 - a3**2,              a1 * a2,              a1 * a3],", new="        [-a2**2 - a3**2,              a1 * a2,              a1],", expect=["C01.R3", "C01.R1"]),
    dict(id="c01-m6", what="T_SO3_inv_quat divides by the squared norm (no longer the inverse's degree)", file=ROT,
         old="    return np.vstack((-p, p0 * eye3 + ax2skew(p))) / 2\n", new="    return np.vstack((-p, p0 * eye3 + ax2skew(p))) / 2 / (P @ P)\n", expect="C01.R2"),
    dict(id="c01-m7", what="T_SO3_quat_P: normalisation derivative forgotten", file=ROT,
         old="        T_P += np.multiply.outer(matrix, -2 * P2_inv**2 * P)\n    return T_P", new="        T_P += np.multiply.outer(matrix, -2 * P2_inv * P)\n    return T_P", expect="C01.R2"),
]
MUTANTS += [
    dict(id="c01-seed", canary=True, what="[seeded by sub-agent] Exp_SO3_quat skips the normalisation when |P|^2 is close to one", file=ROT,
         old="    if normalize:\n        matrix /= P @ P\n    return eye3 + matrix", new="    if normalize:\n        P2 = P @ P\n        if not np.isclose(P2, 1.0):\n            matrix /= P2\n    return eye3 + matrix", expect="C01.R1"),
]
MUTANTS += [
    dict(id="c01-r5-seed", canary=True, what="[seeded by sub-agent] quatprod: vector part with the block p0 I - skew(p) (reversed product)", file=ROT,
         old="    z = p0 * q + q0 * p + cross3(p, q)", new="    z = q0 * p + (p0 * eye3 - ax2skew(p)) @ q", expect="C01.R5"),
    dict(id="c01-r5-2", what="T_SO3_inv_quat with the sign of the skew block flipped", file=ROT,
         old="    return np.vstack((-p, p0 * eye3 + ax2skew(p))) / 2\n", new="    return np.vstack((-p, p0 * eye3 - ax2skew(p))) / 2\n", expect="C01.R5"),
    dict(id="c01-r5-3", what="Exp_SO3_quat builds the transposed rotation", file=ROT,
         old="    matrix = 2 * (p0 * ax2skew(p) + ax2skew_squared(p))\n    if normalize:\n        matrix /= P @ P\n    return eye3 + matrix",
         new="    matrix = 2 * (ax2skew_squared(p) - p0 * ax2skew(p))\n    if normalize:\n        matrix /= P @ P\n    return eye3 + matrix", expect="C01.R5"),
    dict(id="c01-r5-4", what="quatprod: scalar part p0 q0 + p.q", file=ROT, old="    z0 = p0 * q0 - p @ q", new="    z0 = p0 * q0 + p @ q", expect="C01.R5"),
    dict(id="c01-r5-5", what="quatprod: cross3(q, p)", file=ROT, old="    z = p0 * q + q0 * p + cross3(p, q)", new="    z = p0 * q + q0 * p + cross3(q, p)", expect="C01.R5"),
]
MUTANTS += [
    dict(id="c01-r4-seed", canary=True, what="[seeded by sub-agent] Exp_SO3_quat in Cayley form p / p0 (undefined for quaternions with zero scalar part)", file=ROT,
         old="    matrix = 2 * (p0 * ax2skew(p) + ax2skew_squared(p))\n    if normalize:\n        matrix /= P @ P\n    return eye3 + matrix",
         new="    if normalize:\n        g = p / p0\n        return eye3 + 2 / (1 + g @ g) * (ax2skew(g) + ax2skew_squared(g))\n    return eye3 + 2 * (p0 * ax2skew(p) + ax2skew_squared(p))", expect=["C01.R4", "C01.R1"]),
]
NEUTRAL = [
    dict(id="c01-n-r4", what="Exp_SO3_quat normalises with p0*p0 + p@p", file=ROT,
         old="    matrix = 2 * (p0 * ax2skew(p) + ax2skew_squared(p))\n    if normalize:\n        matrix /= P @ P\n    return eye3 + matrix",
         new="    matrix = 2 * (p0 * ax2skew(p) + ax2skew_squared(p))\n    if normalize:\n        matrix /= p0 * p0 + p @ p\n    return eye3 + matrix"),
    dict(id="c01-n-r5", canary=True, what="quatprod: vector part with the block p0 I + skew(p)", file=ROT,
         old="    z = p0 * q + q0 * p + cross3(p, q)", new="    z = q0 * p + (p0 * eye3 + ax2skew(p)) @ q"),
    dict(id="c01-n-r5b", what="quatprod: - cross3(q, p)", file=ROT, old="    z = p0 * q + q0 * p + cross3(p, q)", new="    z = p0 * q + q0 * p - cross3(q, p)"),
    dict(id="c01-n1", canary=True, what="Exp_SO3_quat with the division written out", file=ROT,
         old="    matrix = 2 * (p0 * ax2skew(p) + ax2skew_squared(p))\n    if normalize:\n        matrix /= P @ P\n    return eye3 + matrix",
         new="    matrix = 2 * (p0 * ax2skew(p) + ax2skew_squared(p))\n    if normalize:\n        matrix = matrix / (P @ P)\n    return eye3 + matrix"),
]
MUTANTS += [
    dict(id="c01-r6-seed", canary=True, what="[seeded by sub-agent] T_SO3_inv_quat assembled in a buffer typed by P", file=ROT,
         old="    return np.vstack((-p, p0 * eye3 + ax2skew(p))) / 2\n",
         new="    T_inv = np.empty((4, 3), dtype=P.dtype)\n    T_inv[0] = -0.5 * p\n    T_inv[1:] = 0.5 * (p0 * eye3 + ax2skew(p))\n    return T_inv\n", expect="C01.R6"),
]
NEUTRAL += [
    dict(id="c01-n-r6", canary=True, what="T_SO3_inv_quat assembled in a float/complex-safe buffer", file=ROT,
         old="    return np.vstack((-p, p0 * eye3 + ax2skew(p))) / 2\n",
         new="    T_inv = np.empty((4, 3), dtype=np.common_type(P))\n    T_inv[0] = -0.5 * p\n    T_inv[1:] = 0.5 * (p0 * eye3 + ax2skew(p))\n    return T_inv\n"),
]
MUTANTS += [
    dict(id="c01-r7-seed", canary=True, what="[seeded by sub-agent] Exp_SO3_quat_P remembers its last evaluation in a module-level dict keyed by the caller's array", file=ROT,
         edits=[(ROT, "def Exp_SO3_quat_P(P, normalize=True):\n", "_LAST = {\"P\": None, \"R\": None}\n\n\ndef Exp_SO3_quat_P(P, normalize=True):\n    if _LAST[\"P\"] is not None and np.array_equal(P, _LAST[\"P\"]):\n        return _LAST[\"R\"].copy()\n    _LAST[\"P\"] = P\n")],
         expect="C01.R7"),
]

MUTANTS += [
    dict(id="c01-r2-earlyreturn", canary=True, what="[seeded by sub-agent] Exp_SO3_quat_P gets a fast path for p = 0 that returns before the normalisation (degree +1 instead of -1 on that path)", file=ROT,
         old='    p_tilde = ax2skew(p)\n    p_tilde_p = ax2skew_a()\n    matrix_P = np.zeros((3, 3, 4), dtype=P.dtype)\n', new='    p_tilde_p = ax2skew_a()\n    matrix_P = np.zeros((3, 3, 4), dtype=P.dtype)\n    if not np.any(p):\n        matrix_P[:, :, 1:] = 2 * p0 * p_tilde_p\n        return matrix_P\n    p_tilde = ax2skew(p)\n', expect="C01.R2"),
]
