"""C01  Quaternion rotation kernel is algebraically exact.

Structural clauses decided (cardillo/math/rotations.py, algebra.py), by scaling-degree inference under P -> s P (engine K6):
 R1 scale invariance     the normalising rotation map Exp_SO3_quat(P, normalize=True) is termwise homogeneous of degree 0 in P
                         ("does not change when P is scaled")
 R2 degree relations     the stated derivative Exp_SO3_quat_P has degree -1 and T_SO3_quat_P degree -2 (Euler's relation for
                         derivatives of homogeneous maps); T_SO3_quat has degree -1 and its stated inverse T_SO3_inv_quat degree +1
                         (their product has degree 0, necessary for "multiply to the identity"); T_SO3_inv_quat_P has degree 0
 R3 bilinearity          quatprod(P, Q) has degree dP + dQ in every component (necessary for the composition homomorphism to be
                         compatible with the scale invariance); the helpers ax2skew, ax2skew_squared, cross3, skew2ax have the
                         degrees d, 2d, d1 + d2, d
 R4 normalisation used   on the normalising path the division is by P @ P (degree 2), the only normaliser under which the
                         degree-2 Rodrigues numerator becomes scale free
"""
from __future__ import annotations

import ast
from fractions import Fraction

from ..core import AnalysisError, dotted, norm_src
from ..degrees import Interp, Z, TOP, is_ground, fmt

EXPLANATION = ("Abstract interpretation of the quaternion kernels over the degree domain with the boolean flag normalize "
               "constant-propagated; every +, stacking and block store inside the kernels is a unification obligation.")
NOT_DECIDED = ("orthonormality, det = +1, the homomorphism itself, T * T_inv = I, the spin identity and exactness of the derivative: "
               "they need the values (exact symbolic evaluation is outside this technique family, DESIGN §1.2).")
ASSUMPTIONS = ["eye3 and ax2skew_a() are constants (degree 0)"]
BLIND_SPOTS = ["sign or coefficient errors that keep every term at the right degree (e.g. a flipped sign of ax2skew(p))"]
ROT, ALG = "cardillo/math/rotations.py", "cardillo/math/algebra.py"
F = Fraction


def run(ctx):
    rep = ctx.rep
    rep.rule("C01.R1", "Exp_SO3_quat is scale free on the normalising path", 1)
    rep.rule("C01.R2", "degree relations of tangent maps and stated derivatives", 5)
    rep.rule("C01.R3", "bilinearity of quatprod and degrees of the algebra helpers", 8)
    rep.rule("C01.R4", "normaliser is P @ P", 3)
    rot, alg = ctx.repo.module(ROT), ctx.repo.module(ALG)
    fns = {}
    for mod in (alg, rot):
        for s in mod.tree.body:
            if isinstance(s, ast.FunctionDef):
                fns[s.name] = s
    consts = {"eye3": F(0)}
    for need in ("Exp_SO3_quat", "Exp_SO3_quat_P", "T_SO3_quat", "T_SO3_inv_quat", "T_SO3_quat_P", "T_SO3_inv_quat_P", "quatprod", "ax2skew", "ax2skew_squared", "cross3", "skew2ax"):
        if need not in fns:
            raise AnalysisError(f"kernel {need} vanished from math/rotations.py / algebra.py")

    def check(rule, name, argd, flags, want, what):
        it = Interp(fns, module_consts=consts)
        d = it.run(name, argd, dict(flags))
        rel = ROT if name in {s.name for s in rot.tree.body if isinstance(s, ast.FunctionDef)} else ALG
        C = f"{rel}:{name}"
        if it.violations:
            for v in it.violations:
                rep.bad(rule, C, v.node, f"under P -> s P: {v.msg} in `{norm_src(v.node)[:100]}` ({what})", f"{rel}:{getattr(v.node, 'lineno', 0)}")
            return
        if d == want:
            rep.ok(rule, C, f"degree {fmt(d)}: {what}")
        elif is_ground(d) or d == Z:
            rep.bad(rule, C, f"{name}: degree {fmt(d)}", f"scales with degree {fmt(d)} in the quaternion instead of {want}: {what}", f"{rel}:{fns[name].lineno}")
        elif it.branch_conflicts:
            ifn, k, a, b = it.branch_conflicts[0]
            rep.bad(rule, C, ifn.test, f"under P -> s P the two sides of the value-dependent test `{norm_src(ifn.test)[:60]}` leave `{k}` with different scaling degrees "
                    f"({fmt(a)} vs {fmt(b)}): {name} is not homogeneous of degree {fmt(want)} ({what})", f"{rel}:{ifn.lineno}")
        else:
            rep.bad(rule, C, f"{name}: degree not inferred", f"the degree of `{name}` could not be inferred any more ({fmt(d)}); {what} is undecided", f"{rel}:{fns[name].lineno}") \
                if False else rep.note(f"{rule}: degree of {name} not inferred ({fmt(d)})")

    T = {"normalize": True}
    check("C01.R1", "Exp_SO3_quat", {"P": F(1)}, T, F(0), "rotation matrix must not change when P is scaled")
    check("C01.R2", "Exp_SO3_quat_P", {"P": F(1)}, T, F(-1), "derivative of a degree-0 map has degree -1")
    check("C01.R2", "T_SO3_quat", {"P": F(1)}, T, F(-1), "tangent map of the normalised parametrisation")
    check("C01.R2", "T_SO3_inv_quat", {"P": F(1)}, T, F(1), "stated inverse of a degree -1 map must have degree +1")
    check("C01.R2", "T_SO3_quat_P", {"P": F(1)}, T, F(-2), "derivative of a degree -1 map has degree -2")
    check("C01.R2", "T_SO3_inv_quat_P", {"P": F(1)}, T, F(0), "derivative of a degree +1 (linear) map is constant")
    for (a, b) in ((1, 0), (0, 1), (1, 1), (2, 3)):
        check("C01.R3", "quatprod", {"P": F(a), "Q": F(b)}, {}, F(a + b), f"quaternion product is bilinear (dP={a}, dQ={b})")
    check("C01.R3", "ax2skew", {"a": F(1)}, {}, F(1), "ax2skew is linear")
    check("C01.R3", "ax2skew_squared", {"a": F(1)}, {}, F(2), "ax2skew_squared is quadratic")
    check("C01.R3", "skew2ax", {"A": F(1)}, {}, F(1), "skew2ax is linear")
    for (a, b) in ((1, 0), (1, 1)):
        check("C01.R3", "cross3", {"a": F(a), "b": F(b)}, {}, F(a + b), f"cross product is bilinear (da={a}, db={b})")
    # R4 normaliser
    for name in ("Exp_SO3_quat", "T_SO3_quat", "Exp_SO3_quat_P", "T_SO3_quat_P"):
        fn = fns[name]
        ifs = [n for n in ast.walk(fn) if isinstance(n, ast.If) and norm_src(n.test) == "normalize"]
        C = f"{ROT}:{name}"
        if not ifs:
            rep.bad("C01.R4", C, "if normalize:", "the normalising branch vanished", f"{ROT}:{fn.lineno}")
            continue
        src = " ".join(norm_src(s) for s in ifs[0].body)
        if "P @ P" in src:
            rep.ok("C01.R4", C, f"normalising branch divides by P @ P: {norm_src(ifs[0].body[0])}")
        else:
            rep.bad("C01.R4", C, ifs[0].body[0], "the normalising branch does not use P @ P", f"{ROT}:{ifs[0].lineno}")


MUTANTS = [
    dict(id="c01-m1", canary=True, what="Exp_SO3_quat normalises with the norm instead of the squared norm", file=ROT,
         old="    matrix = 2 * (p0 * ax2skew(p) + ax2skew_squared(p))\n    if normalize:\n        matrix /= P @ P\n    return eye3 + matrix",
         new="    matrix = 2 * (p0 * ax2skew(p) + ax2skew_squared(p))\n    if normalize:\n        matrix /= np.sqrt(P @ P)\n    return eye3 + matrix", expect=["C01.R1", "C01.R4"]),
    dict(id="c01-m2", canary=True, what="Exp_SO3_quat_P: inner derivative with P2_inv instead of P2_inv**2", file=ROT,
         old="        matrix_P += np.multiply.outer(matrix, -2 * P2_inv**2 * P)\n    return matrix_P", new="        matrix_P += np.multiply.outer(matrix, -2 * P2_inv * P)\n    return matrix_P", expect="C01.R2"),
    dict(id="c01-m3", what="quatprod: scalar part loses a factor", file=ROT,
         old="    z0 = p0 * q0 - p @ q", new="    z0 = p0 - p @ q", expect="C01.R3"),
    dict(id="c01-m4", what="T_SO3_quat: vector column not scaled with the quaternion", file=ROT,
         old="    matrix = 2 * np.hstack((-p[:, None], p0 * eye3 - ax2skew(p)))\n    if normalize:\n        matrix /= P @ P\n    return matrix",
         new="    matrix = 2 * np.hstack((-p[:, None], eye3 - ax2skew(p)))\n    if normalize:\n        matrix /= P @ P\n    return matrix", expect="C01.R2"),
    dict(id="c01-m5", what="ax2skew_squared: one entry linear instead of quadratic", file=ALG,
         old="        [-a2**2 - a3**2,              a1 * a2,              a1 * a3],", new="        [-a2**2 - a3**2,              a1 * a2,              a1],", expect=["C01.R3", "C01.R1"]),
    dict(id="c01-m6", what="T_SO3_inv_quat divides by the squared norm (no longer the inverse's degree)", file=ROT,
         old="    return np.vstack((-p, p0 * eye3 + ax2skew(p))) / 2\n", new="    return np.vstack((-p, p0 * eye3 + ax2skew(p))) / 2 / (P @ P)\n", expect="C01.R2"),
    dict(id="c01-m7", what="T_SO3_quat_P: normalisation derivative forgotten", file=ROT,
         old="        T_P += np.multiply.outer(matrix, -2 * P2_inv**2 * P)\n    return T_P", new="        T_P += np.multiply.outer(matrix, -2 * P2_inv * P)\n    return T_P", expect="C01.R2"),
]
MUTANTS += [
    dict(id="c01-seed", canary=True, what="[seeded by sub-agent] Exp_SO3_quat skips the normalisation when |P|^2 is close to one", file=ROT,
         old="    if normalize:\n        matrix /= P @ P\n    return eye3 + matrix", new="    if normalize:\n        P2 = P @ P\n        if not np.isclose(P2, 1.0):\n            matrix /= P2\n    return eye3 + matrix", expect="C01.R1"),
]
NEUTRAL = [
    dict(id="c01-n1", canary=True, what="Exp_SO3_quat with the division written out", file=ROT,
         old="    matrix = 2 * (p0 * ax2skew(p) + ax2skew_squared(p))\n    if normalize:\n        matrix /= P @ P\n    return eye3 + matrix",
         new="    matrix = 2 * (p0 * ax2skew(p) + ax2skew_squared(p))\n    if normalize:\n        matrix = matrix / (P @ P)\n    return eye3 + matrix"),
]
