"""C05  Joint constraints obey the kinematic hierarchy.

Structural clauses decided:
 R1 chain-rule coverage   g/g_q, g_dot/g_dot_q, W_g/Wla_g_q, g_dot/W_g (u) and the time chain g -> g_dot -> g_ddot of
                          PositionOrientationBase, ProjectedPositionOrientationBase, FixedDistance (engine K5)
 R2 transposition         g_dot_u is the plain delegation `self.W_g(t, q).T` ("force directions are the transpose of the
                          velocity constraint's u-derivative" by construction)
 R3 mirror symmetry       the 2 x N lambdas of auxiliary_functions and the two `hasattr(subsystem?, "A_IB")` blocks of
                          both assembler_callbacks are images of each other under 1<->2 (joint frame defined from the
                          same r_OJ0 / A_IJ0 for both bodies: "a joint is satisfied in the configuration in which it
                          was defined")
 R4 subsystem protocol    every method the glue lambdas call exists with a compatible signature on every supported
                          subsystem class (Frame, PointMass, RigidBody, all rod variants)
 R5 joint definitions     each concrete joint passes axes/pairs consistent with its constructor
 R7 block typing          (engine K9) in g_q, g_dot_q, W_g, Wla_g_q a block whose slice selects body c's coordinates (":nq1" / "nq1:") or
                          velocities holds only body c's companions; same for two-part concatenations
 R8 relative polarity     (engine K9) the sign with which body-2 terms enter relative to body-1 terms (point and rotation family)
                          is the same in g and in each derivative routine where it is syntactically determinate
 R6 Leibniz support       (engine K10) the set of factor-monomials of every derivative routine equals the Leibniz image of
                          its primal's monomials: d/dq, d/du, d/dt of g, g_dot, W_g*la_g per joint base class.  Catches a
                          term carrying the wrong body's factor (Omega1 for Omega2) even though all companions are referenced
"""
from __future__ import annotations

import ast
import re

from ..core import AnalysisError, dotted, norm_src
from .. import deriv, mirror, protocol, support, tables, twobody

EXPLANATION = ("K5 chain-rule coverage over the joint base classes; delegation idiom for g_dot_u; AST mirror comparison "
               "(identifier swap 1<->2, slice mirroring, einsum canonicalisation) of the subsystem glue; signature "
               "conformance of every subsystem call against the resolved class table of supported subsystems.")
NOT_DECIDED = "exactness of coefficients and signs; behaviour off the constraint manifold beyond term coverage."
ASSUMPTIONS = ["supported subsystems = tables.KINEMATIC_SUBSYSTEMS (docstrings)"]
BLIND_SPOTS = ["a sign or factor error inside a term that is present", "a dropped term whose companion is referenced elsewhere in the routine"]

BASE = "cardillo/constraints/_base.py"
JOINT_BASES = [(BASE, "PositionOrientationBase"), (BASE, "ProjectedPositionOrientationBase"),
               ("cardillo/constraints/fixed_distance.py", "FixedDistance")]


K10_PAIRS = [("g", "g_q", "q", None), ("g", "g_dot", "t", None), ("g_dot", "g_dot_q", "q", None), ("g_dot", "g_ddot", "t", None),
             ("g_dot", "W_g", "u", None), ("W_g", "Wla_g_q", "q", "la_g")]


GLUE = ("r_OJ1", "r_OJ2", "A_IJ1", "A_IJ2", "v_J1", "v_J2", "Omega1", "Omega2")


def defining_configuration(ctx):
    """Index-kind typing of the coordinate vectors used in assembler_callback: the glue lambdas created by auxiliary_functions
    slice their argument at nq1 = len(local_qDOF1), i.e. they take the concatenation of the subsystems' LOCAL coordinates (for a rod:
    the coordinates of the element containing xi).  A vector built from the subsystems' FULL q0 has another layout whenever a
    subsystem has more coordinates than the local set (rods with more than one element)."""
    rep = ctx.rep
    n = 0
    for ci in ctx.model.all_classes():
        if not ci.rel.startswith("cardillo/constraints/"):
            continue
        fn = ci.methods.get("assembler_callback")
        if fn is None:
            continue
        C = f"{ci.rel}:{ci.qual}.assembler_callback"
        loc = {}
        for st in ast.walk(fn):
            if isinstance(st, ast.Assign) and len(st.targets) == 1 and isinstance(st.targets[0], ast.Name):
                loc.setdefault(st.targets[0].id, []).append(st.value)

        def kind(e, depth=0):
            """'local' | 'full' | None"""
            if depth > 6:
                return None
            d = dotted(e)
            if d == "self.q0":
                return "local"
            if isinstance(e, ast.Subscript):
                b = dotted(e.value) or ""
                if b.endswith(".q0") and "subsystem" in b:
                    idx = norm_src(e.slice)
                    return "local" if idx.startswith("local_qDOF") else None
            if d and d.endswith(".q0") and "subsystem" in d:
                return "full"
            if isinstance(e, ast.Name) and e.id in loc and len(loc[e.id]) == 1:
                return kind(loc[e.id][0], depth + 1)
            if isinstance(e, ast.Call) and (dotted(e.func) or "").split(".")[-1] in ("hstack", "concatenate") and e.args and isinstance(e.args[0], (ast.Tuple, ast.List)):
                ks = [kind(x, depth + 1) for x in e.args[0].elts]
                if any(k == "full" for k in ks):
                    return "full"
                if ks and all(k == "local" for k in ks):
                    return "local"
            return None

        for call in [w for w in ast.walk(fn) if isinstance(w, ast.Call)]:
            f = call.func
            # the object's own glue lambdas: self.r_OJ1(t, q) ...
            if isinstance(f, ast.Attribute) and dotted(f.value) == "self" and f.attr in GLUE and len(call.args) >= 2:
                k = kind(call.args[1])
                n += 1
                if k == "full":
                    rep.bad("C05.R11", C, call, f"`self.{f.attr}` slices its argument at the length of the subsystems' LOCAL coordinate sets, but it is called with "
                            f"`{norm_src(call.args[1])}`, built from the subsystems' FULL q0: for a rod with more than one element the joint is defined from the wrong "
                            "coordinates (distance / frames are wrong or NaN, g(t0, q0) != 0)", f"{ci.rel}:{call.lineno}")
                elif k == "local":
                    rep.ok("C05.R11", C, f"{norm_src(call)[:80]}: local coordinates")
                else:
                    rep.ok("C05.R11", C, f"{norm_src(call)[:80]}: coordinate kind not classified (no verdict)", verdict="unknown", trivial=True)
            # subsystem point protocol evaluated at the initial state: subsystemK.r_OP(t0, q, xi)
            elif isinstance(f, ast.Attribute) and (dotted(f.value) or "").startswith("self.subsystem") and f.attr in ("r_OP", "A_IB") and len(call.args) >= 2:
                k = kind(call.args[1])
                n += 1
                if k == "full":
                    rep.bad("C05.R11", C, call, f"`{norm_src(f)}` takes the coordinates of the element containing xi (local_qDOF_P) but gets the subsystem's full q0",
                            f"{ci.rel}:{call.lineno}")
                elif k == "local":
                    rep.ok("C05.R11", C, f"{norm_src(call)[:80]}: local coordinates")
                else:
                    rep.ok("C05.R11", C, f"{norm_src(call)[:80]}: coordinate kind not classified (no verdict)", verdict="unknown", trivial=True)
    if n < 4:
        raise AnalysisError(f"C05.R11: only {n} evaluations at the defining configuration found")


def defining_frames_by_inverse(ctx, rule="C05.R17"):
    """"A joint is satisfied in the configuration in which it was defined" for every supported subsystem: the body-fixed joint point and
    frame are B_r_PJ0 = A_IB0^-1 (r_OJ0 - r_OP0), A_KJ0 = A_IB0^-1 A_IJ0, so that r_OP0 + A_IB0 B_r_PJ0 = r_OJ0 and A_IB0 A_KJ0 = A_IJ0
    hold identically.  R12 rods report A_IB = sum_i N_i Exp(p_i), a weighted sum of rotations that is NOT orthogonal between the nodes, so
    the transpose is not the inverse there: the pull-back is written with an exact inverse (np.linalg.solve / inv) of the subsystem's A_IB
    at the defining state, never with `.T`."""
    rep = ctx.rep
    n = 0
    for ci in ctx.model.all_classes():
        if not ci.rel.startswith("cardillo/constraints/"):
            continue
        fn = ci.methods.get("assembler_callback")
        if fn is None:
            continue
        C = f"{ci.rel}:{ci.qual}.assembler_callback"
        frames = set()   # locals bound to subsystemK.A_IB(...) at the defining state
        for st in ast.walk(fn):
            if isinstance(st, ast.Assign) and len(st.targets) == 1 and isinstance(st.targets[0], ast.Name) and isinstance(st.value, ast.Call) \
                    and isinstance(st.value.func, ast.Attribute) and st.value.func.attr == "A_IB" and (dotted(st.value.func.value) or "").startswith("self.subsystem"):
                frames.add(st.targets[0].id)
        if not frames:
            continue
        for st in ast.walk(fn):
            if not (isinstance(st, ast.Assign) and len(st.targets) == 1 and isinstance(st.targets[0], ast.Name)):
                continue
            v = st.value
            tname = st.targets[0].id
            # transposed frame applied to something
            tr = [w for w in ast.walk(v) if isinstance(w, ast.Attribute) and w.attr == "T" and isinstance(w.value, ast.Name) and w.value.id in frames]
            tr += [w for w in ast.walk(v) if isinstance(w, ast.Call) and (dotted(w.func) or "").split(".")[-1] == "transpose" and w.args
                   and isinstance(w.args[0], ast.Name) and w.args[0].id in frames]
            inv = [w for w in ast.walk(v) if isinstance(w, ast.Call) and (dotted(w.func) or "").split(".")[-1] in ("solve", "inv", "lstsq", "pinv") and w.args
                   and isinstance(w.args[0], ast.Name) and w.args[0].id in frames]
            if tr:
                n += 1
                rep.bad(rule, C, st, f"`{tname}` pulls the joint point / frame back with the TRANSPOSE of `{norm_src(tr[0])[:40]}`: for an R12 rod (A_IB = sum of N_i Exp(p_i), not orthogonal "
                        "between the nodes) that is not the inverse, so r_OP0 + A_IB0 B_r_PJ0 != r_OJ0 and a joint attached at an interior cross-section with an explicit r_OJ0 / A_IJ0 "
                        "is not satisfied in its defining configuration", f"{ci.rel}:{st.lineno}")
            elif inv:
                n += 1
                rep.ok(rule, C, f"`{tname} = {norm_src(v)[:70]}`: exact inverse of the subsystem's frame")
    if n < 4:
        raise AnalysisError(f"{rule}: only {n} pull-backs of joint data with the subsystems' A_IB found in the joints' assembler_callback")


def signed_velocity_jacobian(ctx, rule="C05.R14"):
    """W_g is the transpose of d g_dot / d u: replacing in g_dot every velocity (v_J1, v_J2, Omega1, Omega2) by its Jacobian (J_J1, J_J2, J_R1,
    J_R2) gives the columns of W_g TERM BY TERM, WITH SIGN.  Both sides are expanded into signed monomials (K12; locals inlined, sums
    distributed); the scalar triple products are brought to one orientation - cross3(a, b) @ c, a @ ax2skew(b) @ c and (a x b) . c are all
    det[a, b, c], so after dropping the skew markers the sign is the parity of the permutation that sorts the three factors.  K10 (R6) sees
    the same monomials on both sides when only the sign of the moment-arm term `(e x r) . J_R1` is flipped; this rule does not.
    Scope: the translational rows of the projected joints (Prismatic, Cylindrical, Planarizer), which are written per constrained axis."""
    import re
    from ..signedterms import Expander
    rep = ctx.rep
    cls = ctx.repo.get(BASE, "ProjectedPositionOrientationBase")
    fg = ctx.repo.get(BASE, "ProjectedPositionOrientationBase.g_dot")
    fw = ctx.repo.get(BASE, "ProjectedPositionOrientationBase.W_g")
    VEL = {"v_J1": "J_J1", "v_J2": "J_J2", "Omega1": "J_R1", "Omega2": "J_R2"}

    def atom(a):
        a = re.sub(r"^self\.(\w+)\(.*\)$", r"\1", a)
        return VEL.get(a, a)

    def canon(terms, want_body):
        out = {}
        for sgn, f in terms:
            flat = []
            for x in f:
                m_ = re.match(r"^skew\((.*)\)$", x)
                flat.append(atom(m_.group(1) if m_ else x))
            jac = [x for x in flat if x in VEL.values()]
            if len(jac) != 1 or not jac[0].endswith(want_body):
                continue
            order = sorted(range(len(flat)), key=lambda i: flat[i])
            if len(flat) == 3:
                inv = sum(1 for i in range(3) for j in range(i + 1, 3) if order[i] > order[j])
                sgn = sgn * (-1 if inv % 2 else 1)
            key = tuple(flat[i] for i in order)
            out[key] = out.get(key, 0) + sgn
        return {k: v for k, v in out.items() if v != 0}

    def first_store(fn, pred):
        for st in ast.walk(fn):
            if isinstance(st, ast.Assign) and len(st.targets) == 1 and isinstance(st.targets[0], ast.Subscript) and pred(st.targets[0]):
                return st
        return None
    sg = first_store(fg, lambda t: norm_src(t.value) == "g_dot" and norm_src(t.slice) == "i")
    s1 = first_store(fw, lambda t: norm_src(t.value) == "W_g" and norm_src(t.slice).replace(" ", "").strip("()") == ":nu1,i")
    s2 = first_store(fw, lambda t: norm_src(t.value) == "W_g" and norm_src(t.slice).replace(" ", "").strip("()") == "nu1:,i")
    if sg is None or s1 is None or s2 is None:
        rep.ok(rule, f"{BASE}:ProjectedPositionOrientationBase.W_g", "translational rows are not written per axis in the form the analysis reads (no verdict)", verdict="unknown", trivial=True)
        return
    tg = Expander(fg).expand(sg.value)
    for body, st in (("1", s1), ("2", s2)):
        C = f"{BASE}:ProjectedPositionOrientationBase.W_g"
        tw = Expander(fw).expand(st.value)
        if tg is None or tw is None:
            rep.ok(rule, C, f"body-{body} block: expression not expandable (no verdict)", verdict="unknown", trivial=True)
            continue
        a, b = canon(tg, body), canon(tw, body)
        if a == b and a:
            rep.ok(rule, C, f"body-{body} block of W_g equals d g_dot / d u term by term with sign ({len(a)} monomials)")
        else:
            diff = sorted(set(a) | set(b), key=str)
            show = "; ".join(f"{' . '.join(k)}: g_dot {a.get(k, 0):+d}, W_g {b.get(k, 0):+d}" for k in diff if a.get(k, 0) != b.get(k, 0))
            rep.bad(rule, C, st, f"the body-{body} block of the translational force directions is not the transpose of d g_dot / d u: {show[:300]} - the moment of the constraint force "
                    "about the joint point of body 1 enters with the wrong sign as soon as the joint points are apart (body 2 has slid along a free direction)", f"{BASE}:{st.lineno}")


def no_extra_normalisation(ctx, rule="C05.R16"):
    """K12 abstracts positive scalars away (a norm is positive), so a normalised force direction has the same signed monomials as the
    un-normalised one.  The calls that produce such scalars are compared directly: the multiset of norm / sqrt calls and of divisions by
    non-constant expressions in W_g must be contained in that of g_dot of the same class."""
    rep = ctx.rep

    def scalars(fn):
        out = []
        for w in ast.walk(fn):
            if isinstance(w, ast.Call) and (dotted(w.func) or "").split(".")[-1] in ("norm", "sqrt"):
                out.append(norm_src(w))
            elif isinstance(w, ast.BinOp) and isinstance(w.op, ast.Div) and not isinstance(w.right, ast.Constant):
                out.append("/" + norm_src(w.right))
        return out
    for rel, cname in ((BASE, "PositionOrientationBase"), (BASE, "ProjectedPositionOrientationBase"), ("cardillo/constraints/fixed_distance.py", "FixedDistance")):
        fg, fw = ctx.repo.maybe(rel, f"{cname}.g_dot"), ctx.repo.maybe(rel, f"{cname}.W_g")
        C = f"{rel}:{cname}.W_g"
        if fg is None or fw is None:
            rep.ok(rule, C, "g_dot / W_g not found (no verdict)", verdict="unknown", trivial=True)
            continue
        sg, sw = scalars(fg), scalars(fw)
        extra = [x for x in sw if x not in sg]
        if extra:
            st = next((w for w in ast.walk(fw) if norm_src(w) == extra[0].lstrip("/") or (isinstance(w, ast.BinOp) and isinstance(w.op, ast.Div) and "/" + norm_src(w.right) == extra[0])), fw)
            rep.bad(rule, C, st, f"W_g uses the scalar `{extra[0]}` that g_dot of the same class does not use: the force direction is rescaled by a state-dependent factor while g_dot keeps its "
                    "own scale, so W_g is no longer (d g_dot / d u).T (and Wla_g_q no longer the derivative of W_g la_g) as soon as that factor differs from one - off the constraint manifold",
                    f"{rel}:{getattr(st, 'lineno', fw.lineno)}")
        else:
            rep.ok(rule, C, f"no normalisation beyond g_dot's ({len(sw)} scalar factor(s), all shared)")


def time_derivative_rows(ctx, rule="C05.R15"):
    """g_dot is d/dt g and g_ddot is d/dt g_dot (K19).  The rows of both routines are brought to the bracket normal form - polynomials with exact
    coefficients in dot(a, b) and det[a, b, c] of the atomic vectors, nested cross products removed by BAC-CAB / Lagrange - and the time
    derivative of the primal row is formed by the product rule with the kinematic table  r_OJk -> v_Jk,  v_Jk -> a_Jk,  Omegak -> Psik,
    A_IJk[:, x] -> Omegak x A_IJk[:, x] (the axis is fixed to body k); constant data (self.dist) are scalar symbols.  The code's derivative
    row must be the same function of the vectors; equality is decided modulo the syzygies by exact evaluation of the difference at integer
    points, so a rewrite with any vector identity is accepted and a wrong sign / factor of a centripetal, Coriolis or Euler term is a
    nonzero polynomial with a witness point.  Vector-valued rows (g[:3] = r_OJ2 - r_OJ1) are tested against a constant dummy vector."""
    from .. import brackets as B
    rep = ctx.rep
    VEC = {"r_OJ1", "r_OJ2", "v_J1", "v_J2", "a_J1", "a_J2", "Omega1", "Omega2", "Psi1", "Psi2"}
    SYM = {"dist"}

    def atom(e):
        if isinstance(e, ast.Call) and isinstance(e.func, ast.Attribute) and isinstance(e.func.value, ast.Name) and e.func.value.id == "self" and e.func.attr in VEC:
            return e.func.attr
        if isinstance(e, ast.Attribute) and isinstance(e.value, ast.Name) and e.value.id == "self" and e.attr in SYM:
            return ("sym", e.attr)
        if isinstance(e, ast.Subscript) and isinstance(e.slice, ast.Tuple) and len(e.slice.elts) == 2 and isinstance(e.slice.elts[0], ast.Slice) \
                and e.slice.elts[0].lower is None and e.slice.elts[0].upper is None:
            v = e.value
            n = v.id if isinstance(v, ast.Name) else (v.func.attr if isinstance(v, ast.Call) and isinstance(v.func, ast.Attribute) else None)
            if n in ("A_IJ1", "A_IJ2"):
                return f"{n}[{norm_src(e.slice.elts[1])}]"
        return None

    def table(S):
        t = {"r_OJ1": B.vatom("v_J1"), "r_OJ2": B.vatom("v_J2"), "v_J1": B.vatom("a_J1"), "v_J2": B.vatom("a_J2"),
             "Omega1": B.vatom("Psi1"), "Omega2": B.vatom("Psi2")}
        for a in B.atoms_of(S):
            if a.startswith("A_IJ1["):
                t[a] = B.vcross(B.vatom("Omega1"), B.vatom(a))
            elif a.startswith("A_IJ2["):
                t[a] = B.vcross(B.vatom("Omega2"), B.vatom(a))
        return t

    def rows(fn, name):
        """{index text: (stmt, expr)}: subscript stores into the result buffer, or the returned expression itself"""
        out = {}
        for st in ast.walk(fn):
            if isinstance(st, ast.Assign) and len(st.targets) == 1 and isinstance(st.targets[0], ast.Subscript) and norm_src(st.targets[0].value) == name:
                out[re.sub(r"\s", "", norm_src(st.targets[0].slice))] = (st, st.value)
            elif isinstance(st, ast.Return) and st.value is not None and not (isinstance(st.value, ast.Name) and st.value.id == name):
                out["<return>"] = (st, st.value)
        return out

    def scalar(fn, e):
        v = B.Bracketer(fn, atom).ev(e)
        if v is None:
            return None
        if v[0] == "v":
            return B.sdot(B.vatom("_c"), v[1])
        return v[1] if v[0] == "s" else None
    total = 0
    for rel, cname, prim, der in ((BASE, "ProjectedPositionOrientationBase", "g", "g_dot"), (BASE, "ProjectedPositionOrientationBase", "g_dot", "g_ddot"),
                                  (BASE, "PositionOrientationBase", "g", "g_dot"), (BASE, "PositionOrientationBase", "g_dot", "g_ddot"),
                                  ("cardillo/constraints/fixed_distance.py", "FixedDistance", "g", "g_dot"), ("cardillo/constraints/fixed_distance.py", "FixedDistance", "g_dot", "g_ddot")):
        try:
            fp, fd = ctx.repo.get(rel, f"{cname}.{prim}"), ctx.repo.get(rel, f"{cname}.{der}")
        except Exception:
            rep.ok(rule, f"{rel}:{cname}.{der}", "routine not found (no verdict)", verdict="unknown", trivial=True)
            continue
        C = f"{rel}:{cname}.{der}"
        rp, rdv = rows(fp, prim), rows(fd, der)
        for idx, (st, e) in sorted(rdv.items()):
            if idx not in rp:
                rep.ok(rule, C, f"row {der}[{idx}]: no {prim} row with the same index expression (no verdict)", verdict="unknown", trivial=True)
                continue
            sp, sd = scalar(fp, rp[idx][1]), scalar(fd, e)
            if sp is None or sd is None:
                rep.ok(rule, C, f"row {der}[{idx}]: not a polynomial in dot / cross products of the kinematic vectors (no verdict)", verdict="unknown", trivial=True)
                continue
            want = B.ddt(sp, table(sp))
            same, pt = B.same_function(want, sd)
            if same:
                total += 1
                rep.ok(rule, C, f"row {der}[{idx}] is the time derivative of {prim}[{idx}] ({len(want)} bracket monomials)")
            else:
                D = B.sadd(sd, want, -1)
                rep.bad(rule, C, st, f"row {der}[{idx}] is not the time derivative of {prim}[{idx}]: {der} - d/dt {prim} = {B.show(D)[:260]} "
                        f"(nonzero e.g. at {dict(list(pt.items())[:3])}...) - the constraint levels the solvers and the consistent initial conditions use disagree with each other "
                        "as soon as the bodies move", f"{rel}:{st.lineno}")
    if total < 6:
        rep.ok(rule, BASE, f"only {total} rows decided", verdict="unknown", trivial=True)


def run(ctx):
    rep = ctx.rep
    rep.rule("C05.R16", "W_g carries no scalar normalisation (norm / sqrt / division by a state-dependent scalar) that g_dot does not carry: g_dot is linear in u with W_g.T as coefficient, so a factor 1 / |n| in W_g alone makes W_g differ from (d g_dot / d u).T by |n| = sqrt(1 - g^2) off the constraint manifold", 3)
    no_extra_normalisation(ctx)
    rep.rule("C05.R15", "joint bases and FixedDistance: every row of g_dot is the time derivative of the same row of g, and of g_ddot of g_dot, as polynomials in dot / triple products of the kinematic vectors (K19 bracket normal form, exact coefficients, equality modulo vector identities)", 8)
    time_derivative_rows(ctx)
    rep.rule("C05.R12", "dependence monotonicity (K13) over every primal/derivative pair of K5: a stated derivative reads no datum its primal does not read", 15)
    from .. import depmono as _dm
    _dm.check_k5_pairs(ctx, "C05.R12", ['PositionOrientationBase', 'ProjectedPositionOrientationBase', 'FixedDistance'])
    rep.rule("C05.R1", "chain-rule coverage of constraint derivatives and time chain (K5)", 20)
    rep.rule("C05.R2", "g_dot_u = W_g.T by construction", 3)
    rep.rule("C05.R3", "mirror symmetry of subsystem-1 / subsystem-2 glue", 20)
    rep.rule("C05.R4", "subsystem protocol of the glue lambdas", 15)
    rep.rule("C05.R7", "two-body block typing: a block selecting body c's coordinates / velocities holds only body c's derivative quantities (K9)", 40)
    rep.rule("C05.R13", "the joint glue is stateless: no value-remembering closure in cardillo/constraints skips a parameter of the function it wraps (time!)", 0)
    from .c26 import handmade_memo
    handmade_memo(ctx, "C05.R13", lambda rel: rel.startswith("cardillo/constraints/"))
    rep.rule("C05.R11", "the configuration in which a joint is defined is evaluated on the joint's LOCAL coordinates (subsystem.q0[local_qDOF] / self.q0), the kind its glue lambdas slice", 4)
    defining_configuration(ctx)
    rep.rule("C05.R10", "per block row: sign of the body-2 block relative to the body-1 block (orientation rows; cross products in canonical order; frozen table)", 8)
    rep.rule("C05.R8", "relative polarity of body-2 vs body-1 terms agrees between the constraint and its derivatives (K9)", 25)
    rep.rule("C05.R9", "all point-protocol calls of one body's joint glue name the same material point (xi, B_r_CP)", 4)
    protocol.point_argument_agreement(ctx, "C05.R9", [("auxiliary_functions", BASE, ctx.repo.get(BASE, "auxiliary_functions"))])
    rep.rule("C05.R17", "the body-fixed joint point / frame at the defining configuration are pulled back with the exact inverse of the subsystem's A_IB (not its transpose: R12 rods report non-orthogonal A_IB between the nodes)", 4)
    defining_frames_by_inverse(ctx)
    rep.rule("C05.R14", "projected joints: W_g equals the transpose of d g_dot / d u term by term WITH SIGN (signed monomials, triple products in one orientation)", 2)
    signed_velocity_jacobian(ctx)
    rep.rule("C05.R6", "Leibniz image of the primal's factor monomials equals the derivative routine's monomials (K10)", 18)
    model = ctx.model
    wanted = {"g", "g_q", "g_dot", "g_dot_q", "g_ddot", "W_g", "Wla_g_q", "g_dot_u"}
    for rel, cname in JOINT_BASES:
        ci = model.cls(cname, rel)
        deriv.run_class(ctx, "C05.R1", ci, only=lambda p, d, dep: p in wanted and d in wanted)
        # R2
        view = protocol.ClassView(ctx, ci)
        c, fn = view.method("g_dot_u")
        C = f"{rel}:{cname}.g_dot_u"
        if fn is None:
            raise AnalysisError(f"{C} vanished")
        body = [s for s in fn.body if not (isinstance(s, ast.Expr) and isinstance(s.value, ast.Constant))]
        params = [a.arg for a in fn.args.args][1:]
        want = f"return self.W_g({', '.join(params)}).T"
        if len(body) == 1 and norm_src(body[0]) == want:
            rep.ok("C05.R2", C, want)
        elif any(isinstance(n, ast.Attribute) and n.attr == "W_g" for n in ast.walk(fn)):
            rep.bad("C05.R2", C, body[-1], f"g_dot_u refers to W_g but is not its plain transpose `{want}`", f"{rel}:{fn.lineno}")
        else:
            rep.note(f"C05.R2: {cname}.g_dot_u does not delegate to W_g; transposition not decided structurally")
    # R7 / R8 K9
    chain = ["g", "g_q", "g_dot", "g_dot_q", "g_ddot", "W_g", "Wla_g_q"]
    for rel, cname in JOINT_BASES:
        ci = model.cls(cname, rel)
        for name in chain:
            fn = ci.methods.get(name)
            if fn is None:
                raise AnalysisError(f"{rel}:{cname}.{name} vanished")
            twobody.check_typing(rep, "C05.R7", f"{rel}:{cname}.{name}", rel, fn)
        twobody.check_polarity(rep, "C05.R8", ci, chain)
        twobody.check_rowgroup_polarity(rep, "C05.R10", ci, chain, tables.JOINT_ROW_POLARITY)
    # R6 K10
    for rel, cname in JOINT_BASES:
        ci = model.cls(cname, rel)
        view = protocol.ClassView(ctx, ci)
        for p, d, mode, extra in K10_PAIRS:
            c, fn = view.method(d)
            support.check(rep, "C05.R6", view, f"{rel}:{cname}.{d}", rel, p, d, mode, extra, lineno=getattr(fn, "lineno", 0))
    # R3 mirror of auxiliary_functions
    fn = ctx.repo.get(BASE, "auxiliary_functions")
    lam = {}
    for s in fn.body:
        if isinstance(s, ast.Assign) and isinstance(s.targets[0], ast.Attribute) and isinstance(s.value, ast.Lambda):
            lam[s.targets[0].attr] = s
    pairs = 0
    for name, st in sorted(lam.items()):
        other = mirror.swap_ident(name)
        if "1" not in name or other == name:
            continue
        pairs += 1
        C = f"{BASE}:auxiliary_functions.{name}"
        if other not in lam:
            rep.bad("C05.R3", C, st, f"lambda `{name}` has no mirror `{other}` for the second subsystem", f"{BASE}:{st.lineno}")
            continue
        if mirror.mirror_equal(st.value, lam[other].value):
            rep.ok("C05.R3", C, f"{name} <-> {other} are mirror images")
        else:
            a, b = mirror.first_difference(st.value, lam[other].value)
            rep.bad("C05.R3", C, lam[other], f"`{other}` is not the mirror image of `{name}`: expected `{a[:160]}` but found `{b[:160]}`",
                    f"{BASE}:{lam[other].lineno}")
    if pairs < 18:
        raise AnalysisError(f"only {pairs} mirrored lambda pairs found in auxiliary_functions (18 confirmed by hand)")
    # R3 mirror of hasattr blocks
    for rel, cname in JOINT_BASES[:2]:
        ci = model.cls(cname, rel)
        ac = ci.methods.get("assembler_callback")
        if ac is None:
            raise AnalysisError(f"{cname}.assembler_callback vanished")
        blocks = {}
        for s in ac.body:
            if isinstance(s, ast.If) and isinstance(s.test, ast.Call) and dotted(s.test.func) == "hasattr" and len(s.test.args) == 2:
                blocks[norm_src(s.test.args[0])] = s
        b1, b2 = blocks.get("self.subsystem1"), blocks.get("self.subsystem2")
        C = f"{rel}:{cname}.assembler_callback"
        if b1 is None or b2 is None:
            raise AnalysisError(f"{C}: hasattr(subsystem?, 'A_IB') blocks not found")
        if mirror.mirror_equal(b1, b2):
            rep.ok("C05.R3", C, "hasattr(subsystem1/2, 'A_IB') blocks are mirror images (both body frames derive from the same r_OJ0, A_IJ0)")
        else:
            a, b = mirror.first_difference(b1, b2)
            # find first differing line
            la, lb = a.split("\n"), b.split("\n")
            diff = next(((x, y) for x, y in zip(la, lb) if x != y), (a[:80], b[:80]))
            rep.bad("C05.R3", C, b2.test, f"the subsystem-2 block is not the mirror image of the subsystem-1 block: expected `{diff[0].strip()}` found `{diff[1].strip()}`",
                    f"{rel}:{b2.lineno}")
        # the same world-frame joint data feeds auxiliary_functions
        calls = [n for n in ast.walk(ac) if isinstance(n, ast.Call) and dotted(n.func) == "auxiliary_functions"]
        argsrc = [norm_src(a) for a in calls[0].args] if len(calls) == 1 else []
        if len(argsrc) == 2 and argsrc[1].startswith("*self."):
            # frames persisted once: resolve the tuple store
            attr = argsrc[1][len("*self."):]
            tup = [st for st in ci.stores.get(attr, []) if st.method == "assembler_callback" and isinstance(st.value, ast.Tuple)]
            if len(tup) == 1:
                argsrc = ["self"] + [norm_src(e) for e in tup[0].value.elts]
        if argsrc == ["self", "B1_r_P1J0", "B2_r_P2J0", "A_K1J0", "A_K2J0"]:
            rep.ok("C05.R3", C, norm_src(calls[0]))
        else:
            rep.bad("C05.R3", C, calls[0] if calls else ac.name, "auxiliary_functions must receive (self, B1_r_P1J0, B2_r_P2J0, A_K1J0, A_K2J0) in this order",
                    f"{rel}:{ac.lineno}")
    # R4 protocol
    calls = []
    for name, st in lam.items():
        calls += protocol.subsystem_calls(st.value)
    for rel, cname in JOINT_BASES[:2]:
        ac = model.cls(cname, rel).methods["assembler_callback"]
        calls += protocol.subsystem_calls(ac)
    for f in ("concatenate_qDOF", "concatenate_uDOF"):
        calls += protocol.subsystem_calls(ctx.repo.get(BASE, f))
    protocol.check_subsystem_protocol(ctx, "C05.R4", f"{BASE}:auxiliary_functions", calls, rel=BASE)


PB = BASE
MUTANTS = [
    dict(id="c05-m1", canary=True, what="PositionOrientationBase.g_dot_q drops the A_IJ1_q1 term of the rotational rows", file=PB,
         old="                g_dot_q[3 + i, :nq1] = (\n                    n @ Omega1_q1 - Omega21 @ ax2skew(e_b) @ A_IJ1_q1[:, a]\n                )",
         new="                g_dot_q[3 + i, :nq1] = (\n                    n @ Omega1_q1\n                )", expect="C05.R1",
         edits=[(PB, "            A_IJ1_q1 = self.A_IJ1_q1(t, q)\n            A_IJ2_q2 = self.A_IJ2_q2(t, q)\n\n            Omega21 = self.Omega1(t, q, u) - self.Omega2(t, q, u)\n            Omega1_q1 = self.Omega1_q1(t, q, u)",
                 "            A_IJ2_q2 = self.A_IJ2_q2(t, q)\n\n            Omega21 = self.Omega1(t, q, u) - self.Omega2(t, q, u)\n            Omega1_q1 = self.Omega1_q1(t, q, u)"),
                (PB, "                    n @ Omega1_q1 - Omega21 @ ax2skew(e_b) @ A_IJ1_q1[:, a]\n                )\n                g_dot_q[3 + i, nq1:] = (\n                    -n @ Omega2_q2 + Omega21 @ ax2skew(e_a) @ A_IJ2_q2[:, b]\n                )\n\n        return g_dot_q\n\n    def g_dot_u(self, t, q):\n        return self.W_g(t, q).T\n\n    def g_ddot(self, t, q, u, u_dot):\n        g_ddot = np.zeros(self.nla_g, dtype=np.common_type(q, u, u_dot))\n        g_ddot[:3]",
                 "                    n @ Omega1_q1\n                )\n                g_dot_q[3 + i, nq1:] = (\n                    -n @ Omega2_q2 + Omega21 @ ax2skew(e_a) @ A_IJ2_q2[:, b]\n                )\n\n        return g_dot_q\n\n    def g_dot_u(self, t, q):\n        return self.W_g(t, q).T\n\n    def g_ddot(self, t, q, u, u_dot):\n        g_ddot = np.zeros(self.nla_g, dtype=np.common_type(q, u, u_dot))\n        g_ddot[:3]")]),
    dict(id="c05-m2", canary=True, what="auxiliary_functions: v_J2_q2 evaluates subsystem 2 with the subsystem-1 slice", file=PB,
         old="    object.v_J2_q2 = lambda t, q, u: object.subsystem2.v_P_q(\n        t, q[nq1:], u[nu1:], object.xi2, B2_r_P2B0\n    )",
         new="    object.v_J2_q2 = lambda t, q, u: object.subsystem2.v_P_q(\n        t, q[:nq1], u[nu1:], object.xi2, B2_r_P2B0\n    )", expect="C05.R3"),
    dict(id="c05-m3", what="FixedDistance.g_ddot drops the centripetal term? no: drops a_J term", file="cardillo/constraints/fixed_distance.py",
         old="        a_J1J2 = self.a_J2(t, q, u, u_dot) - self.a_J1(t, q, u, u_dot)\n\n        return 2 * v_J1J2 @ v_J1J2 + 2 * r_J1J2 @ a_J1J2",
         new="        return 2 * v_J1J2 @ v_J1J2", expect="C05.R1"),
    dict(id="c05-m4", what="Projected base: g_dot_u returns W_g without transpose", file=PB,
         old="        # g_dot_q_num = approx_fprime(\n        #     q, lambda q: self.g_dot(t, q, u), method=\"cs\", eps=1e-12\n        # )\n        # diff = g_dot_q - g_dot_q_num\n        # error = np.linalg.norm(diff)\n        # print(f\"error g_dot_q: {error}\")\n        # return g_dot_q_num\n\n    def g_dot_u(self, t, q):\n        return self.W_g(t, q).T",
         new="        # g_dot_q_num = approx_fprime(\n        #     q, lambda q: self.g_dot(t, q, u), method=\"cs\", eps=1e-12\n        # )\n        # diff = g_dot_q - g_dot_q_num\n        # error = np.linalg.norm(diff)\n        # print(f\"error g_dot_q: {error}\")\n        # return g_dot_q_num\n\n    def g_dot_u(self, t, q):\n        return self.W_g(t, q)", expect="C05.R2"),
    dict(id="c05-m5", what="subsystem-2 joint frame derived from the body-1 orientation", file=PB,
         old="            B2_r_P2J0 = np.linalg.solve(A_IB20, self.r_OJ0 - r_OP20)\n            A_K2J0 = np.linalg.solve(A_IB20, self.A_IJ0)\n        else:\n            B2_r_P2J0 = np.zeros(3)\n            A_K2J0 = None  # unused\n            assert self.nla_g_rot == 0  # Spherical case\n\n        # the body-fixed",
         new="            B2_r_P2J0 = np.linalg.solve(A_IB20, self.r_OJ0 - r_OP20)\n            A_K2J0 = np.linalg.solve(A_IB10, self.A_IJ0)\n        else:\n            B2_r_P2J0 = np.zeros(3)\n            A_K2J0 = None  # unused\n            assert self.nla_g_rot == 0  # Spherical case\n\n        # the body-fixed", expect="C05.R3"),
    dict(id="c05-m6", what="glue passes B_r_CP as keyword that PointMass lacks? (renamed keyword offset=)", file=PB,
         old="    object.J_J1 = lambda t, q: object.subsystem1.J_P(t, q[:nq1], object.xi1, B1_r_P1B0)",
         new="    object.J_J1 = lambda t, q: object.subsystem1.J_P(t, q[:nq1], object.xi1, offset=B1_r_P1B0)", expect=["C05.R4", "C05.R3"]),
    dict(id="c05-m7", what="Projected base W_g drops the lever-arm term J_R1 of translation rows", file=PB,
         old="                    -A_IJ1[:, ax] @ J_J1 + cross3(A_IJ1[:, ax], r_J1J2) @ J_R1\n                )",
         new="                    -A_IJ1[:, ax] @ J_J1\n                )", expect=None, optional=True),
    dict(id="c05-m8", what="Projected base Wla_g_q loses the r_OJ2_q2 coupling block", file=PB,
         old="                Wla_g_q[:nu1, nq1:] += np.einsum(\n                    \"ik,ij->jk\", la_g[i] * ax2skew(A_IJ1[:, ax]) @ r_OJ2_q2, J_R1\n                )\n",
         new="", expect="C05.R1",
         edits=[(PB, "            r_OJ2_q2 = self.r_OJ2_q2(t, q)\n            J_J1 = self.J_J1(t, q)\n            J_J2 = self.J_J2(t, q)\n            J_J1_q1 = self.J_J1_q1(t, q)", "            J_J1 = self.J_J1(t, q)\n            J_J2 = self.J_J2(t, q)\n            J_J1_q1 = self.J_J1_q1(t, q)"),
                (PB, "                Wla_g_q[:nu1, nq1:] += np.einsum(\n                    \"ik,ij->jk\", la_g[i] * ax2skew(A_IJ1[:, ax]) @ r_OJ2_q2, J_R1\n                )\n", "")]),
]
MUTANTS = [m for m in MUTANTS if not m.get("optional")]
# K10 (C05.R6) mutants: every companion is still referenced somewhere in the routine, so K5 (function granularity) is blind
MUTANTS += [
    dict(id="c05-k10-seed", canary=True, what="[seeded by sub-agent] PositionOrientationBase.g_ddot differentiates e_b with Omega1 instead of Omega2", file=PB,
         old="                g_ddot[3 + i] = (\n                    cross3(cross3(Omega1, e_a), e_b) + cross3(e_a, cross3(Omega2, e_b))",
         new="                g_ddot[3 + i] = (\n                    cross3(cross3(Omega1, e_a), e_b) + cross3(e_a, cross3(Omega1, e_b))", expect="C05.R6"),
    dict(id="c05-k10-2", what="ProjectedPositionOrientationBase.g_ddot: same fault in the projected base", file=PB,
         old="                g_ddot[self.nla_g_trans + i] = (\n                    cross3(cross3(Omega1, e_a), e_b) + cross3(e_a, cross3(Omega2, e_b))",
         new="                g_ddot[self.nla_g_trans + i] = (\n                    cross3(cross3(Omega2, e_a), e_b) + cross3(e_a, cross3(Omega2, e_b))", expect="C05.R6"),
]
# K9 mutants: monomial sets and companion references are unchanged, only the block or the sign is wrong
MUTANTS += [
    dict(id="c05-k9-1", canary=True, what="PositionOrientationBase.Wla_g_q: the J_J2_q2 term is stored in the body-1 column block", file=PB,
         old="        Wla_g_q[nu1:, nq1:] += np.einsum(\"i,ijk->jk\", la_g[:3], self.J_J2_q2(t, q))\n\n        if self.constrain_orientation:\n            A_IJ1 = self.A_IJ1(t, q)\n            A_IJ2 = self.A_IJ2(t, q)\n\n            A_IJ1_q1 = self.A_IJ1_q1(t, q)\n            A_IJ2_q2 = self.A_IJ2_q2(t, q)\n\n            J_R1 = self.J_R1(t, q)",
         new="        Wla_g_q[nu1:, :nq1] += np.einsum(\"i,ijk->jk\", la_g[:3], self.J_J2_q2(t, q))\n\n        if self.constrain_orientation:\n            A_IJ1 = self.A_IJ1(t, q)\n            A_IJ2 = self.A_IJ2(t, q)\n\n            A_IJ1_q1 = self.A_IJ1_q1(t, q)\n            A_IJ2_q2 = self.A_IJ2_q2(t, q)\n\n            J_R1 = self.J_R1(t, q)", expect="C05.R7"),
    dict(id="c05-k9-2", canary=True, what="PositionOrientationBase.g_q: sign of the body-2 position block flipped", file=PB,
         old="        g_q[:3, :nq1] = -self.r_OJ1_q1(t, q)\n        g_q[:3, nq1:] = self.r_OJ2_q2(t, q)", new="        g_q[:3, :nq1] = -self.r_OJ1_q1(t, q)\n        g_q[:3, nq1:] = -self.r_OJ2_q2(t, q)", expect="C05.R8"),
    dict(id="c05-k9-3", what="FixedDistance.g_dot_q: both blocks carry the factor -2", file="cardillo/constraints/fixed_distance.py",
         old="        g_dot_q[:, self._nq1 :] = 2 * (\n            r_J1J2 @ self.v_J2_q2(t, q, u)", new="        g_dot_q[:, self._nq1 :] = -2 * (\n            r_J1J2 @ self.v_J2_q2(t, q, u)", expect="C05.R8"),
]
MUTANTS += [
    dict(id="c05-r9-1", canary=True, what="auxiliary_functions: acceleration of joint point 2 evaluated without the body-fixed offset", file=PB,
         old="    object.a_J2 = lambda t, q, u, u_dot: object.subsystem2.a_P(\n        t, q[nq1:], u[nu1:], u_dot[nu1:], object.xi2, B2_r_P2B0\n    )",
         new="    object.a_J2 = lambda t, q, u, u_dot: object.subsystem2.a_P(\n        t, q[nq1:], u[nu1:], u_dot[nu1:], object.xi2\n    )", expect=["C05.R9", "C05.R3"]),
]
JB = "cardillo/constraints/_base.py"
MUTANTS += [
    dict(id="c05-r9-seed", canary=True, what="[seeded by sub-agent] g_dot_q rewritten with cross3, argument order of the body-2 term wrong (sign flip that vanishes on the constraint manifold)", file=JB,
         old="                g_dot_q[3 + i, :nq1] = (\n                    n @ Omega1_q1 - Omega21 @ ax2skew(e_b) @ A_IJ1_q1[:, a]\n                )\n                g_dot_q[3 + i, nq1:] = (\n                    -n @ Omega2_q2 + Omega21 @ ax2skew(e_a) @ A_IJ2_q2[:, b]\n                )",
         new="                g_dot_q[3 + i, :nq1] = (\n                    n @ Omega1_q1 + cross3(e_b, Omega21) @ A_IJ1_q1[:, a]\n                )\n                g_dot_q[3 + i, nq1:] = (\n                    -n @ Omega2_q2 + cross3(e_a, Omega21) @ A_IJ2_q2[:, b]\n                )", expect="C05.R10"),
    dict(id="c05-r9-2", what="g_q orientation rows: body-2 block negated", file=JB,
         old="                g_q[3 + i, nq1:] = A_IJ1[:, a] @ A_IJ2_q2[:, b]", new="                g_q[3 + i, nq1:] = -A_IJ1[:, a] @ A_IJ2_q2[:, b]", expect=["C05.R10", "C05.R8"]),
]
MUTANTS += [
    dict(id="c05-r11-orig", canary=True, what="FixedDistance defined from the subsystems' full q0 (original defect)", file="cardillo/constraints/fixed_distance.py",
         old="        q0 = self.q0\n", new="        q0 = np.hstack((self.subsystem1.q0, self.subsystem2.q0))\n", expect="C05.R11"),
]
MUTANTS += [
    dict(id="c05-r13-seed", canary=True, what="[seeded by sub-agent] joint bases A_IJ1 / A_IJ2 served from a closure that re-evaluates only when q changes (stale for rotating frames)", file=JB,
         edits=[(JB, "class PositionOrientationBase:\n", "def cache_last_evaluation(fun, local_qDOF):\n    q_last, value = None, None\n\n    def cached_fun(t, q):\n        nonlocal q_last, value\n        q_loc = q[local_qDOF]\n        if q_last is None or np.any(q_last != q_loc):\n            q_last, value = q_loc.copy(), fun(t, q)\n        return value\n\n    return cached_fun\n\n\nclass PositionOrientationBase:\n")],
         expect="C05.R13"),
]
NEUTRAL = [
    dict(id="c05-n-r9", canary=True, what="g_dot_q rewritten with cross3 and the correct argument order", file=JB,
         old="                g_dot_q[3 + i, :nq1] = (\n                    n @ Omega1_q1 - Omega21 @ ax2skew(e_b) @ A_IJ1_q1[:, a]\n                )\n                g_dot_q[3 + i, nq1:] = (\n                    -n @ Omega2_q2 + Omega21 @ ax2skew(e_a) @ A_IJ2_q2[:, b]\n                )",
         new="                g_dot_q[3 + i, :nq1] = (\n                    n @ Omega1_q1 + cross3(e_b, Omega21) @ A_IJ1_q1[:, a]\n                )\n                g_dot_q[3 + i, nq1:] = (\n                    -n @ Omega2_q2 + cross3(Omega21, e_a) @ A_IJ2_q2[:, b]\n                )"),
    dict(id="c05-n-k9", canary=True, what="explicit -1.0 factor instead of unary minus in g_q", file=PB,
         old="        g_q[:3, :nq1] = -self.r_OJ1_q1(t, q)\n        g_q[:3, nq1:] = self.r_OJ2_q2(t, q)", new="        g_q[:3, :nq1] = -1.0 * self.r_OJ1_q1(t, q)\n        g_q[:3, nq1:] = 1.0 * self.r_OJ2_q2(t, q)"),
    dict(id="c05-n1", canary=True, what="einsum indices renamed consistently in A_IJ2_q2", file=PB,
         old='        "ijk,jl->ilk", object.subsystem2.A_IB_q(t, q[nq1:], object.xi2), A_K2B0', new='        "abc,bd->adc", object.subsystem2.A_IB_q(t, q[nq1:], object.xi2), A_K2B0'),
]
MUTANTS += [
    dict(id="c05-r14-seed", canary=True, what="[seeded by sub-agent] projected joints: body-1 Jacobian hoisted as J_J1 + skew(r) J_R1 (moment arm with the wrong sign)", file=BASE,
         old="                W_g[:nu1, i] = (\n                    -A_IJ1[:, ax] @ J_J1 + cross3(A_IJ1[:, ax], r_J1J2) @ J_R1\n                )\n",
         new="                W_g[:nu1, i] = -A_IJ1[:, ax] @ (J_J1 + ax2skew(r_J1J2) @ J_R1)\n", expect="C05.R14"),
]
NEUTRAL += [
    dict(id="c05-n-r14", canary=True, what="projected joints: body-1 Jacobian hoisted as J_J1 - skew(r) J_R1 (correct)", file=BASE,
         old="                W_g[:nu1, i] = (\n                    -A_IJ1[:, ax] @ J_J1 + cross3(A_IJ1[:, ax], r_J1J2) @ J_R1\n                )\n",
         new="                W_g[:nu1, i] = -A_IJ1[:, ax] @ (J_J1 - ax2skew(r_J1J2) @ J_R1)\n"),
]

_ROWS = '            for i, ax in enumerate(self.constrained_axes_displacement):\n                e_dot = cross3(Omega1, A_IJ1[:, ax])\n                g_ddot[i] = (\n                    A_IJ1[:, ax] @ a_J1J2\n                    + v_J1J2 @ e_dot\n                    + cross3(A_IJ1[:, ax], r_J1J2) @ Psi1\n                    + cross3(A_IJ1[:, ax], v_J1J2) @ Omega1\n                    + cross3(e_dot, r_J1J2) @ Omega1\n                )\n'
MUTANTS += [
    dict(id="c05-r15-seed", canary=True, what="[seeded by sub-agent] projected joints: g_ddot rewritten as e . a_rel with the centripetal term subtracted (sign)", file=BASE,
         old=_ROWS, new='            a_rel = (\n                a_J1J2\n                - cross3(Psi1, r_J1J2)\n                - cross3(Omega1, cross3(Omega1, r_J1J2))\n                - 2 * cross3(Omega1, v_J1J2)\n            )\n            for i, ax in enumerate(self.constrained_axes_displacement):\n                g_ddot[i] = A_IJ1[:, ax] @ a_rel\n', expect="C05.R15"),
    dict(id="c05-r15-coriolis", what="projected joints: g_ddot rewritten as e . a_rel with the Coriolis factor 2 dropped", file=BASE,
         old=_ROWS, new='            a_rel = (\n                a_J1J2\n                - cross3(Psi1, r_J1J2)\n                + cross3(Omega1, cross3(Omega1, r_J1J2))\n                - cross3(Omega1, v_J1J2)\n            )\n            for i, ax in enumerate(self.constrained_axes_displacement):\n                g_ddot[i] = A_IJ1[:, ax] @ a_rel\n', expect="C05.R15"),
    dict(id="c05-r15-rot", what="projected joints: rotational g_ddot row uses Omega1 for the rate of the body-2 axis", file=BASE,
         old="cross3(cross3(Omega1, e_a), e_b) + cross3(e_a, cross3(Omega2, e_b))", new="cross3(cross3(Omega1, e_a), e_b) + cross3(e_a, cross3(Omega1, e_b))", every=True, expect="C05.R15"),
]
NEUTRAL += [
    dict(id="c05-n-r15", canary=True, what="projected joints: g_ddot rewritten as e . a_rel with the correct relative acceleration (vector identities only)", file=BASE,
         old=_ROWS, new='            a_rel = (\n                a_J1J2\n                - cross3(Psi1, r_J1J2)\n                + cross3(Omega1, cross3(Omega1, r_J1J2))\n                - 2 * cross3(Omega1, v_J1J2)\n            )\n            for i, ax in enumerate(self.constrained_axes_displacement):\n                g_ddot[i] = A_IJ1[:, ax] @ a_rel\n'),
]

MUTANTS += [
    dict(id="c05-r15-fd", what="FixedDistance.g_ddot loses the factor 2 of the velocity term", file='cardillo/constraints/fixed_distance.py',
         old="        return 2 * v_J1J2 @ v_J1J2 + 2 * r_J1J2 @ a_J1J2\n", new="        return v_J1J2 @ v_J1J2 + 2 * r_J1J2 @ a_J1J2\n", expect="C05.R15"),
    dict(id="c05-r15-gdot", what="projected joints: g_dot's moment-arm term written with the operands of the cross product swapped", file=BASE,
         old="                g_dot[i] = A_IJ1[:, ax] @ v_J1J2 + cross3(A_IJ1[:, ax], r_J1J2) @ Omega1\n", new="                g_dot[i] = A_IJ1[:, ax] @ v_J1J2 + cross3(r_J1J2, A_IJ1[:, ax]) @ Omega1\n", expect="C05.R15"),
]
NEUTRAL += [
    dict(id="c05-n-r15b", what="FixedDistance.g_ddot with the common factor 2 pulled out", file='cardillo/constraints/fixed_distance.py',
         old="        return 2 * v_J1J2 @ v_J1J2 + 2 * r_J1J2 @ a_J1J2\n", new="        return 2 * (v_J1J2 @ v_J1J2 + r_J1J2 @ a_J1J2)\n"),
]

MUTANTS += [
    dict(id="c05-r16-seed", canary=True, what="[seeded by sub-agent] the orientation columns of W_g use the UNIT direction n / |n| of the constraint moment while g_dot keeps n", file=BASE,
         old='                n = cross3(A_IJ1[:, a], A_IJ2[:, b])\n                W_g[:, 3 + i] = n @ J\n', new="                n = cross3(A_IJ1[:, a], A_IJ2[:, b])\n                W_g[:, 3 + i] = (n / np.linalg.norm(n)) @ J\n", expect="C05.R16"),
]

MUTANTS += [
    dict(id="c05-r17-f57", canary=True, what="finding F57 re-injected: joint point and frame of subsystem 2 pulled back with A_IB20.T", file=BASE,
         old="            B2_r_P2J0 = np.linalg.solve(A_IB20, self.r_OJ0 - r_OP20)\n            A_K2J0 = np.linalg.solve(A_IB20, self.A_IJ0)\n",
         new="            B2_r_P2J0 = A_IB20.T @ (self.r_OJ0 - r_OP20)\n            A_K2J0 = A_IB20.T @ self.A_IJ0\n", every=True, expect="C05.R17"),
]
NEUTRAL += [
    dict(id="c05-n-r17", canary=True, what="pull-back written with an explicit inverse matrix (both subsystems, both base classes)", every=True,
         edits=[(BASE, "            B1_r_P1J0 = np.linalg.solve(A_IB10, self.r_OJ0 - r_OP10)\n            A_K1J0 = np.linalg.solve(A_IB10, self.A_IJ0)\n",
                 "            A_IB10_inv = np.linalg.inv(A_IB10)\n            B1_r_P1J0 = A_IB10_inv @ (self.r_OJ0 - r_OP10)\n            A_K1J0 = A_IB10_inv @ self.A_IJ0\n"),
                (BASE, "            B2_r_P2J0 = np.linalg.solve(A_IB20, self.r_OJ0 - r_OP20)\n            A_K2J0 = np.linalg.solve(A_IB20, self.A_IJ0)\n",
                 "            A_IB20_inv = np.linalg.inv(A_IB20)\n            B2_r_P2J0 = A_IB20_inv @ (self.r_OJ0 - r_OP20)\n            A_K2J0 = A_IB20_inv @ self.A_IJ0\n")]),
]
