"""C17  Integrators keep bilateral constraints and unit quaternions at every step.

Structural clauses decided:
 R1 end-point enforcement   in the residuals of the implicit schemes (Rattle.R_x1, BackwardEuler.R_x, DualStormerVerlet's
                            Newton map) the position-level constraints are evaluated at the END of the step (time tn + dt) and
                            at coordinates that depend on the unknown; the velocity-level constraints at the same point
 R2 one evaluation point    all System evaluations that feed one linear KKT system (Moreau's midpoint system, Rattle's stage-2
                            system, ScipyIVP's index-1 system) use the same (t, q) pair
 R3 step_callback first     every q / u a solver stores comes out of system.step_callback(t, q, u) called with the time it is
                            stored under (solvers that normalise by return value: Rattle, BackwardEuler, Moreau,
                            DualStormerVerlet, static Newton)
 R4 wrappers                ScipyIVP.la_g_la_gamma_la_c assembles the same force families as ScipyIVP.eqm; ScipyDAE.fun has
                            rows for g, g_dot, gamma and c and the GGL term g_q^T mu_g in the kinematic row, and every force
                            family of the residual has its derivative in ScipyDAE.jac
 R5 residual <-> Jacobian   Rattle.R_x1/_J_x1 and BackwardEuler.R_x/_J_x list the same force and constraint families
"""
from __future__ import annotations

import ast

from ..core import AnalysisError, dotted, norm_src, walk_no_nested
from ..cfg import CFG
from ..dataflow import ReachingDefs
from .. import termset

EXPLANATION = ("Resolution of the (t, q) arguments of every System call inside residuals and linear systems; def-use "
               "proof that stored states are the return values of step_callback; family comparison between residual and "
               "Jacobian and between sibling assemblies.")
NOT_DECIDED = "residual sizes at the stored steps, drift of the stabilised DAE, solver tolerances (value facts)."
ASSUMPTIONS = ["ScipyIVP / ScipyDAE normalise quaternions through an in-place side effect inside an event function, which R3 does not model (excluded, stated)"]
BLIND_SPOTS = ["wrong coefficient (e.g. dt vs dt/2) in a residual row"]
RT, BE, MO, DSV = "cardillo/solver/rattle.py", "cardillo/solver/backward_euler.py", "cardillo/solver/moreau.py", "cardillo/solver/dual_stormer_verlet.py"
IVP, DAE, ST = "cardillo/solver/scipy_ivp.py", "cardillo/solver/scipy_dae.py", "cardillo/solver/statics.py"


def _single(res, name):
    v = res.local.get(name)
    return v[0] if v and len(v) == 1 else None


def _is_end_time(res, e, depth=0):
    """expression denotes tn + dt."""
    s = norm_src(e)
    if s in ("tn + dt", "self.tn + dt", "self.tn + self.dt", "tn + self.dt", "dt + tn"):
        return True
    if isinstance(e, ast.Name) and depth < 3:
        v = _single(res, e.id)
        if v is not None:
            return _is_end_time(res, v, depth + 1)
    return False


def _depends_on(res, e, params, depth=0, seen=None):
    seen = seen if seen is not None else set()
    for n in ast.walk(e):
        if isinstance(n, ast.Name):
            if n.id in params:
                return True
            if n.id in res.local and n.id not in seen and depth < 5:
                seen.add(n.id)
                for v in res.local[n.id]:
                    if v is not None and _depends_on(res, v, params, depth + 1, seen):
                        return True
    return False


def ivp_rows_from_kkt(ctx, rule="C17.R10"):
    """"Accelerations and multipliers reported by the ODE wrapper satisfy the equations of motion and the acceleration-level constraints at
    EVERY output time": each row of u_dot / la_g / la_gamma / la_c that ScipyIVP.solve returns is the result of the KKT routine evaluated at
    that row's (t, q, u).  A row copied from somewhere else - the snapshot System.assemble() took (u_dot0, la_g0, ...), which is stale after
    set_tau(...) or when no consistent initial conditions were requested - satisfies nothing; and the loop over the outputs must start at 0."""
    rep = ctx.rep
    fn = ctx.repo.get(IVP, "ScipyIVP.solve")
    C = f"{IVP}:ScipyIVP.solve"
    rets = [r.value for r in ast.walk(fn) if isinstance(r, ast.Return) and isinstance(r.value, ast.Call) and (dotted(r.value.func) or "").endswith("Solution")]
    if not rets:
        raise AnalysisError(f"{C}: return Solution(...) not found")
    fields = {k.arg: k.value.id for k in rets[-1].keywords if k.arg in ("u_dot", "la_g", "la_gamma", "la_c") and isinstance(k.value, ast.Name)}
    if len(fields) < 3:
        raise AnalysisError(f"{C}: fewer than 3 acceleration-level fields handed to Solution")
    names = set(fields.values())
    n = 0
    for st in ast.walk(fn):
        if not isinstance(st, ast.Assign):
            continue
        tgts = st.targets[0].elts if isinstance(st.targets[0], ast.Tuple) else st.targets
        hit = [t for t in tgts if isinstance(t, ast.Subscript) and isinstance(t.value, ast.Name) and t.value.id in names]
        if not hit:
            continue
        n += 1
        from_kkt = isinstance(st.value, ast.Call) and norm_src(st.value.func).startswith("self.") and len(st.value.args) >= 3
        if from_kkt:
            # the enclosing loop covers all outputs
            loop = getattr(st, "_parent", None)
            while loop is not None and not isinstance(loop, ast.For):
                loop = getattr(loop, "_parent", None)
            it = norm_src(loop.iter) if loop is not None else ""
            partial = loop is not None and isinstance(loop.iter, ast.Call) and norm_src(loop.iter.func) == "range" and len(loop.iter.args) >= 2 and norm_src(loop.iter.args[0]) not in ("0",)
            if loop is None or partial:
                rep.bad(rule, C, loop.iter if loop is not None else st, f"the KKT solve `{norm_src(st.value.func)}` runs over `{it}`, not over all outputs: the rows left out are not solutions of "
                        "the equations of motion at their output time", f"{IVP}:{st.lineno}")
            else:
                rep.ok(rule, C, f"rows of {', '.join(norm_src(t.value) for t in hit)} come from {norm_src(st.value.func)}(t_i, q_i, u_i) for every output ({it[:40]})")
        else:
            rep.bad(rule, C, st, f"`{norm_src(st)[:70]}` fills a reported row from `{norm_src(st.value)[:40]}` instead of the KKT solve at that output's (t, q, u): a snapshot of the initial "
                    "accelerations / multipliers is stale after set_tau(...) or without consistent initial conditions, and then violates the equations of motion at t0", f"{IVP}:{st.lineno}")
    if n < 1:
        raise AnalysisError(f"{C}: no store into the acceleration-level fields found")


def rhs_multiplicity(ctx, rule="C17.R9"):
    """Moreau's step solves ONE linear system  A x = b + (W_N P_N + W_F P_F; 0; 0)  whose lower rows chi_g, chi_gamma make the velocity-level
    bilateral constraints hold at the midpoint.  However the solution is put together (re-solve with an updated right-hand side, or
    superposition x0 + A^-1 (contact part)), the stored x must contain b's upper block exactly once and b's constraint rows exactly once: a
    superposition onto a right-hand side that still carries chi_g counts the inhomogeneous constraint part twice (W_g^T u + 2 chi_g = 0).
    Abstract interpretation with the domain (multiplicity of b's top block, multiplicity of b's constraint rows); linear solves keep it."""
    rep = ctx.rep
    fn = ctx.repo.get(MO, "Moreau.step")
    C = f"{MO}:Moreau.step"
    solves = [w for w in ast.walk(fn) if isinstance(w, ast.Call) and isinstance(w.func, ast.Attribute) and w.func.attr == "solve" and w.args and isinstance(w.args[0], ast.Name)]
    if not solves:
        raise AnalysisError(f"{C}: no linear solve found")
    base = min(solves, key=lambda w: w.lineno).args[0].id
    env = {}
    TOPV = None

    def add(A, B, sign=1):
        if A is TOPV or B is TOPV:
            return TOPV
        return {(a[0] + sign * b[0], a[1] + sign * b[1]) for a in A for b in B}

    def ev(e):
        if isinstance(e, ast.Name):
            return env.get(e.id, {(0, 0)})
        if isinstance(e, ast.Call):
            f = e.func
            if isinstance(f, ast.Attribute) and f.attr == "copy" and not e.args:
                return ev(f.value)
            if isinstance(f, ast.Attribute) and f.attr == "solve" and e.args:
                return ev(e.args[0])
            last = (dotted(f) or "").split(".")[-1]
            if last in ("zeros", "zeros_like", "empty_like", "ones_like"):
                return {(0, 0)}
            if last in ("copy", "array", "asarray") and e.args:
                return ev(e.args[0])
            if any(isinstance(w, ast.Name) and env.get(w.id, {(0, 0)}) != {(0, 0)} for w in ast.walk(e)):
                return TOPV
            return {(0, 0)}
        if isinstance(e, ast.BinOp) and isinstance(e.op, (ast.Add, ast.Sub)):
            return add(ev(e.left), ev(e.right), 1 if isinstance(e.op, ast.Add) else -1)
        if isinstance(e, ast.UnaryOp) and isinstance(e.op, ast.USub):
            return add({(0, 0)}, ev(e.operand), -1)
        if isinstance(e, ast.Subscript):
            return ev(e.value)
        if any(isinstance(w, ast.Name) and env.get(w.id, {(0, 0)}) != {(0, 0)} for w in ast.walk(e)):
            return TOPV
        return {(0, 0)}

    def top_slice(t):
        return isinstance(t, ast.Subscript) and isinstance(t.slice, ast.Slice) and t.slice.lower is None and isinstance(t.value, ast.Name)
    final = []

    def block(stmts):
        for st in stmts:
            if isinstance(st, ast.Assign) and len(st.targets) == 1:
                t = st.targets[0]
                if isinstance(t, ast.Name):
                    if t.id == base and base not in env:
                        env[base] = {(1, 1)}
                    else:
                        env[t.id] = ev(st.value)
                elif top_slice(t):
                    cur, new = env.get(t.value.id, {(0, 0)}), ev(st.value)
                    env[t.value.id] = TOPV if (cur is TOPV or new is TOPV) else {(n_[0], c_[1]) for c_ in cur for n_ in new}
                elif isinstance(t, ast.Tuple) and isinstance(st.value, ast.Call) and (dotted(st.value.func) or "").endswith("array_split") and st.value.args \
                        and isinstance(st.value.args[0], ast.Name) and env.get(st.value.args[0].id, {(0, 0)}) != {(0, 0)}:
                    final.append((st, env.get(st.value.args[0].id)))
            elif isinstance(st, ast.AugAssign) and top_slice(st.target) and isinstance(st.op, (ast.Add, ast.Sub)):
                cur, new = env.get(st.target.value.id, {(0, 0)}), ev(st.value)
                env[st.target.value.id] = TOPV if (cur is TOPV or new is TOPV) else {(c_[0] + (1 if isinstance(st.op, ast.Add) else -1) * n_[0], c_[1]) for c_ in cur for n_ in new}
            elif isinstance(st, ast.If):
                before = dict(env)
                block(st.body)
                after_body = dict(env)
                env.clear()
                env.update(before)
                block(st.orelse)
                for k in set(after_body) | set(env):
                    a, b_ = after_body.get(k, before.get(k, {(0, 0)})), env.get(k, before.get(k, {(0, 0)}))
                    env[k] = TOPV if (a is TOPV or b_ is TOPV) else (a | b_)
            elif isinstance(st, (ast.For, ast.While)):
                block(st.body)
            elif isinstance(st, (ast.With, ast.Try)):
                block(st.body)
    block(fn.body)
    if not final:
        raise AnalysisError(f"{C}: the split of the solution vector (un1, P_gn1, P_gamman1) was not found")
    for st, m in final:
        if m is TOPV:
            rep.ok(rule, C, f"`{norm_src(st)[:60]}`: composition of the solution not determinable (no verdict)", verdict="unknown", trivial=True)
        elif m == {(1, 1)}:
            rep.ok(rule, C, f"the solution that is split into (un1, P_g, P_gamma) contains the right-hand side `{base}` exactly once (momentum block and constraint rows) on every path")
        else:
            rep.bad(rule, C, st, f"the solution split into (un1, P_g, P_gamma) contains the right-hand side `{base}` with multiplicities (momentum block, constraint rows) = {sorted(m)} "
                    "instead of (1, 1): a superposition onto a right-hand side that still carries chi_g / chi_gamma counts the inhomogeneous part of the bilateral constraints twice, so "
                    "g_dot(t_mid, q_mid, u_n+1) = -chi_g instead of 0 whenever a rheonomic constraint and a closed contact meet", f"{MO}:{st.lineno}")


def callback_threading(ctx, rule="C17.R8"):
    """System.step_callback hands each contribution ITS slice of the state and writes the result back.  Contributions overlap: a
    contact between two rigid bodies (Sphere2Sphere) owns a callback and its qDOF covers both bodies' coordinates, which it returns
    unchanged.  The normalisation done by the bodies' own callbacks survives only if every callback reads the slices of the very
    arrays the results are written to (and that are returned): a later pass-through callback then hands on what the earlier ones
    normalised.  Reading from a snapshot makes the pass-through overwrite the unit quaternions with the un-normalised ones."""
    rep = ctx.rep
    rel = "cardillo/system.py"
    fn = ctx.repo.get(rel, "System.step_callback")
    C = f"{rel}:System.step_callback"
    ret = [r.value for r in ast.walk(fn) if isinstance(r, ast.Return) and r.value is not None]
    returned = [norm_src(e) for e in (ret[-1].elts if ret and isinstance(ret[-1], ast.Tuple) else ret[-1:])]
    calls = [n for n in ast.walk(fn) if isinstance(n, ast.Assign) and isinstance(n.value, ast.Call) and isinstance(n.value.func, ast.Attribute)
             and n.value.func.attr == "step_callback"]
    if not calls or len(returned) != 2:
        raise AnalysisError(f"{C}: per-contribution callback (a, b = contr.step_callback(t, ...)) or the returned pair not recognised")
    def base(e):
        while isinstance(e, ast.Subscript):
            e = e.value
        return norm_src(e)
    for st in calls:
        tg = st.targets[0]
        outs = [base(e) for e in (tg.elts if isinstance(tg, ast.Tuple) else [tg])]
        ins = [base(a) for a in st.value.args[1:3]]
        if len(outs) != 2 or len(ins) != 2:
            rep.bad(rule, C, st, "the callback's (q, u) pair is not written back as a pair", f"{rel}:{st.lineno}")
            continue
        for kind, o, i, r in zip(("coordinates", "velocities"), outs, ins, returned):
            if o == i == r:
                rep.ok(rule, C, f"{kind}: each callback reads its slice of `{i}`, writes it back to `{o}`, `{r}` is returned")
            elif o != r:
                rep.bad(rule, C, st, f"{kind}: callback results are written to `{o}` but `{r}` is returned (normalised quaternions are dropped)", f"{rel}:{st.lineno}")
            else:
                rep.bad(rule, C, st, f"{kind}: callbacks read their slice from `{i}` but results go to `{o}`: a contribution that passes its coordinates through unchanged and "
                        "overlaps a rigid body (Sphere2Sphere covers both bodies' qDOF) writes the un-normalised quaternion of the snapshot over the normalised one",
                        f"{rel}:{st.lineno}")
    # every contribution's own callback returns (functions of) the arrays it was given
    n = 0
    for rel2, mod in sorted(ctx.repo.modules.items()):
        if not rel2.startswith("cardillo/") or rel2 == rel:
            continue
        for q, f in mod.defs().items():
            if isinstance(f, ast.FunctionDef) and f.name == "step_callback" and len(f.args.args) >= 4:
                n += 1
                qn, un = f.args.args[2].arg, f.args.args[3].arg
                rets = [r.value for r in ast.walk(f) if isinstance(r, ast.Return)]
                if rets and all(isinstance(r, ast.Tuple) and len(r.elts) == 2 and norm_src(r.elts[0]) == qn and norm_src(r.elts[1]) == un for r in rets):
                    rep.ok(rule, f"{rel2}:{q}", f"returns its (in place updated) arguments ({qn}, {un})")
                else:
                    rep.bad(rule, f"{rel2}:{q}", rets[0] if rets and rets[0] is not None else f.name, f"step_callback does not return the pair ({qn}, {un}) it was given: System.step_callback writes "
                            "whatever is returned into the state", f"{rel2}:{f.lineno}")
    if n < 3:
        raise AnalysisError(f"{rule}: fewer than 3 contribution step_callback implementations found")


def projection_unconditional(ctx, rule="C17.R14"):
    """The contributions that own quaternion coordinates (RigidBody, the rods) project them to unit length in step_callback.  Stored
    quaternions have unit length (to round-off) only if that store runs in EVERY step with the EXACT length: the store `q[S] = q[S] /
    norm(q[S])` is not nested in a test on the state (`if not np.isclose(norm, 1)` skips every drift below the tolerance, which then
    accumulates over the steps), and the divisor is the norm of the very block that is stored."""
    rep = ctx.rep
    NORMS = ("norm", "np.linalg.norm", "linalg.norm")
    n_store = 0
    for rel, mod in sorted(ctx.repo.modules.items()):
        if not rel.startswith("cardillo/") or rel == "cardillo/system.py":
            continue
        for qn_, f in mod.defs().items():
            if not (isinstance(f, ast.FunctionDef) and f.name == "step_callback" and len(f.args.args) >= 4):
                continue
            qn = f.args.args[2].arg
            C = f"{rel}:{qn_}"
            parents = {}
            for a in ast.walk(f):
                for b in ast.iter_child_nodes(a):
                    parents[b] = a
            alias = {}  # local -> source text of the expression it names (single assignment)
            for a in ast.walk(f):
                if isinstance(a, ast.Assign) and len(a.targets) == 1 and isinstance(a.targets[0], ast.Name):
                    alias.setdefault(a.targets[0].id, []).append(a.value)

            def resolve(e):
                seen = 0
                while isinstance(e, ast.Name) and len(alias.get(e.id, [])) == 1 and seen < 4:
                    e = alias[e.id][0]
                    seen += 1
                return e

            def norm_of(e):
                """source of X when e is a Euclidean norm of X"""
                e = resolve(e)
                if isinstance(e, ast.Call) and (dotted(e.func) or "") in NORMS and len(e.args) == 1 and not e.keywords:
                    return norm_src(resolve(e.args[0]))
                if isinstance(e, ast.Call) and (dotted(e.func) or "").split(".")[-1] == "sqrt" and len(e.args) == 1:
                    a = resolve(e.args[0])
                    if isinstance(a, ast.BinOp) and isinstance(a.op, ast.MatMult) and norm_src(resolve(a.left)) == norm_src(resolve(a.right)):
                        return norm_src(resolve(a.left))
                return None

            for st in ast.walk(f):
                tgt = val = None
                if isinstance(st, ast.Assign) and len(st.targets) == 1 and isinstance(st.targets[0], ast.Subscript):
                    tgt, val = st.targets[0], st.value
                elif isinstance(st, ast.AugAssign) and isinstance(st.target, ast.Subscript):
                    tgt, val = st.target, st
                if tgt is None:
                    continue
                b = tgt
                while isinstance(b, ast.Subscript):
                    b = b.value
                if not (isinstance(b, ast.Name) and b.id == qn):
                    continue
                n_store += 1
                # (a) unconditional
                g = parents.get(st)
                guard = None
                while g is not None and g is not f:
                    if isinstance(g, (ast.If, ast.While)) and any(isinstance(x, ast.Name) and (x.id == qn or x.id in alias) for x in ast.walk(g.test)):
                        guard = g
                    if isinstance(g, ast.Try):
                        guard = guard or g
                    g = parents.get(g)
                # (b) exact length of the stored block
                tsrc = norm_src(tgt)
                exact = None
                if isinstance(val, ast.AugAssign):
                    if isinstance(val.op, ast.Div):
                        exact = norm_of(val.value) == tsrc
                else:
                    v = resolve(val)
                    if isinstance(v, ast.BinOp) and isinstance(v.op, ast.Div):
                        num = norm_src(resolve(v.left))
                        exact = num == tsrc and norm_of(v.right) == tsrc
                if guard is not None and isinstance(guard, (ast.If, ast.While)):
                    rep.bad(rule, C, st, f"the projection `{norm_src(st)[:60]}` only runs when `{norm_src(guard.test)[:60]}` holds, a test on the state: steps whose drift stays below "
                            "that threshold are stored un-normalised and the solver continues from them, so the stored quaternions are off unit length by up to the threshold instead of round-off",
                            f"{rel}:{st.lineno}")
                elif exact is False:
                    rep.bad(rule, C, st, f"`{norm_src(st)[:70]}` does not divide the stored block `{tsrc}` by its own Euclidean length: the stored quaternion is not of unit length",
                            f"{rel}:{st.lineno}")
                elif exact is None:
                    rep.note(f"{rule}: {C}: store `{norm_src(st)[:60]}` not recognised as block / norm(block); not decided")
                else:
                    rep.ok(rule, C, f"`{tsrc}` is divided by its own length on every call")
    if n_store < 2:
        raise AnalysisError(f"{rule}: only {n_store} quaternion projections found in the contributions' step_callback (RigidBody and the rods have one each)")


def stored_time_is_solved_time(ctx, rule="C17.R13"):
    """R_x solves g(self.tn + self.dt, q_{n+1}) = 0.  If solve() labels the step with tn + min(self.dt, t1 - tn) the last step of a run whose
    t1 is not a multiple of dt is solved at tn + dt and stored under t1: for a rheonomic constraint g(t1, q_N) = O(dt)."""
    rep = ctx.rep
    rel = "cardillo/solver/backward_euler.py"
    cls = ctx.repo.get(rel, "BackwardEuler")
    solve = next((f for f in cls.body if isinstance(f, ast.FunctionDef) and f.name == "solve"), None)
    rx = next((f for f in cls.body if isinstance(f, ast.FunctionDef) and f.name == "R_x"), None)
    C = f"{rel}:BackwardEuler.solve"
    if solve is None or rx is None:
        rep.ok(rule, C, "solve / R_x not found (no verdict)", verdict="unknown", trivial=True)
        return
    rx_steps = {norm_src(w) for w in ast.walk(rx) if isinstance(w, ast.Attribute) and w.attr == "dt"} | \
               {norm_src(v) for w in ast.walk(rx) if isinstance(w, ast.Assign) and len(w.targets) == 1 and norm_src(w.targets[0]) == "dt" for v in [w.value]}
    binds = {w.targets[0].id: w.value for w in ast.walk(solve) if isinstance(w, ast.Assign) and len(w.targets) == 1 and isinstance(w.targets[0], ast.Name)}
    t = binds.get("tn1")
    if t is None or not (isinstance(t, ast.BinOp) and isinstance(t.op, ast.Add)):
        rep.ok(rule, C, "no `tn1 = tn + step` in solve (no verdict)", verdict="unknown", trivial=True)
        return
    step = t.right
    while isinstance(step, ast.Name) and step.id in binds:
        step = binds[step.id]
    if norm_src(step) in rx_steps or norm_src(step) == "self.dt":
        rep.ok(rule, C, f"`tn1 = {norm_src(t)}`: the step the equations use ({', '.join(sorted(rx_steps)) or 'self.dt'})")
    else:
        rep.bad(rule, C, t, f"the stored time `tn1 = {norm_src(t)}` uses the step `{norm_src(step)[:50]}` while R_x solves with {', '.join(sorted(rx_steps)) or 'self.dt'}: whenever the two differ (a last "
                "step shortened to end at t1) the state is solved at one time and stored under another, and a time-dependent constraint is violated by O(dt) at the stored time",
                f"{rel}:{t.lineno}")


def initial_projection_dominates(ctx, rule="C17.R12"):
    """Every fixed-step solver stores system.q0 as its first step.  system.q0 is what consistent_initial_conditions returns; it is unit-length
    only if the projection ran on the path taken."""
    from ..cfg import CFG
    rep = ctx.rep
    rel = "cardillo/solver/_base.py"
    fn = ctx.repo.get(rel, "consistent_initial_conditions")
    C = f"{rel}:consistent_initial_conditions"
    cfg = CFG(fn)
    calls = [n for n in cfg.nodes if n.kind == "stmt" and n.ast is not None and any(isinstance(w, ast.Call) and isinstance(w.func, ast.Attribute) and w.func.attr == "step_callback"
                                                                                  for w in ast.walk(n.ast)) and not isinstance(n.ast, (ast.FunctionDef, ast.If, ast.For, ast.While))]
    rets = [n for n in cfg.nodes if n.kind == "stmt" and isinstance(n.ast, ast.Return)]
    if not rets:
        raise AnalysisError(f"{C}: no return found")
    if not calls:
        rep.bad(rule, C, fn.name, "the initial state is never projected (no call of system.step_callback)", f"{rel}:{fn.lineno}")
        return
    for r in rets:
        if any(cfg.dominates(c, r) for c in calls):
            rep.ok(rule, C, f"return at line {r.lineno}: the projection of (q0, u0) has run")
        else:
            rep.bad(rule, C, r.ast, f"the return at line {r.lineno} can be reached without `{norm_src(calls[0].ast)[:60]}`: on that path (assembly without consistent initial conditions, "
                    "nu == 0) the initial quaternions are handed back as given, and every fixed-step solver stores them as its first step", f"{rel}:{r.lineno}")


def ivp_full_mass_matrix(ctx, rule="C17.R11"):
    """The ODE wrapper DEFINES u_dot (right-hand side of the integrated ODE and reported accelerations) and the multipliers through the
    system's mass matrix.  They satisfy  M u_dot = h + W la  only if M enters whole: as the matrix of a linear solve, as a block of a
    block matrix, or in a product / sum.  A projection of M (`.diagonal()`, an element-wise reciprocal, an index) is exact for lumped masses
    in principal axes only - which is every shipped example.  (DualStormerVerlet's diagonal preconditioner and prox parameters are not
    in scope: they steer an iteration, they do not define its fixed point.)"""
    rep = ctx.rep
    cls = ctx.repo.get(IVP, "ScipyIVP")
    SOLVES = {"spsolve", "splu", "solve", "lu_solve", "factorized", "spsolve_triangular"}
    n = 0
    for fn in [f for f in cls.body if isinstance(f, ast.FunctionDef)]:
        C = f"{IVP}:ScipyIVP.{fn.name}"
        par = {}
        for p_ in ast.walk(fn):
            for c_ in ast.iter_child_nodes(p_):
                par[id(c_)] = p_
        mcalls = [c for c in ast.walk(fn) if isinstance(c, ast.Call) and isinstance(c.func, ast.Attribute) and c.func.attr == "M" and norm_src(c.func.value) in ("self.system", "system")]
        if not mcalls:
            continue
        names = set()
        for c in mcalls:
            pa = par.get(id(c))
            if isinstance(pa, ast.Assign) and len(pa.targets) == 1 and isinstance(pa.targets[0], ast.Name) and pa.value is c:
                names.add(pa.targets[0].id)
        uses = [(c, par.get(id(c))) for c in mcalls if not (isinstance(par.get(id(c)), ast.Assign) and par[id(c)].value is c)]
        uses += [(w, par.get(id(w))) for w in ast.walk(fn) if isinstance(w, ast.Name) and w.id in names and isinstance(w.ctx, ast.Load)]
        for node, pa in uses:
            n += 1
            how = None
            if isinstance(pa, ast.Call) and node in pa.args and (dotted(pa.func) or "").split(".")[-1] in SOLVES and pa.args[0] is node:
                ok_ = True
                how = f"matrix of `{norm_src(pa.func)}`"
            elif isinstance(pa, ast.BinOp) and isinstance(pa.op, (ast.MatMult, ast.Add, ast.Sub)):
                ok_ = True
                how = "operand of a matrix product / sum"
            elif isinstance(pa, (ast.List, ast.Tuple)):
                ok_ = True
                how = "block of a block matrix"
            elif isinstance(pa, ast.UnaryOp) and isinstance(pa.op, ast.USub):
                ok_ = True
                how = "negated block"
            else:
                ok_ = False
            if ok_:
                rep.ok(rule, C, f"`{norm_src(node)[:40]}` enters whole: {how}")
            else:
                ctxt = norm_src(pa)[:80] if pa is not None else "?"
                rep.bad(rule, C, pa if pa is not None else node, f"the system mass matrix is not used whole here: `{ctxt}` takes a projection of it (diagonal / element / reciprocal), so the "
                        "accelerations and multipliers defined with it satisfy M u_dot = h + W la only for a diagonal mass matrix (no products of inertia, no rods)", f"{IVP}:{node.lineno}")
    if n < 2:
        raise AnalysisError(f"{IVP}: fewer than 2 uses of the system mass matrix found in ScipyIVP")


def run(ctx):
    rep = ctx.rep
    rep.rule("C17.R14", "the contributions' step_callback projects every quaternion block unconditionally and by its own exact length (no tolerance-gated skip, no other divisor)", 2)
    projection_unconditional(ctx)
    rep.rule("C17.R13", "BackwardEuler: the time a step is STORED under is the time its equations were SOLVED at: tn1 = self.tn + self.dt with the same self.dt that R_x / J_x / prox read (a locally shortened last step must also shorten the equations)", 1)
    stored_time_is_solved_time(ctx)
    rep.rule("C17.R12", "the first stored step is a projected state on EVERY assembly path: in consistent_initial_conditions the call system.step_callback(t0, q0, u0) (quaternion normalisation) dominates every return, the early exits for 'no consistent initial conditions requested' / nu == 0 included", 1)
    initial_projection_dominates(ctx)
    rep.rule("C17.R11", "ScipyIVP: the system mass matrix enters the definition of u_dot and of the multipliers whole (linear solve, block, product), never through its diagonal or elements", 2)
    ivp_full_mass_matrix(ctx)
    rep.rule("C17.R10", "ScipyIVP: every reported row of u_dot, la_g, la_gamma, la_c is the KKT solve at that output's (t, q, u)", 1)
    ivp_rows_from_kkt(ctx)
    rep.rule("C17.R9", "Moreau: the stored solution of the step's linear system contains its right-hand side (incl. the constraint rows chi_g, chi_gamma) exactly once", 1)
    rhs_multiplicity(ctx)
    rep.rule("C17.R8", "System.step_callback threads ONE state through all callbacks (overlapping contributions keep the normalisation)", 5)
    callback_threading(ctx)
    rep.rule("C17.R1", "constraints enforced at the end point on the unknown", 8)
    rep.rule("C17.R2", "one evaluation point per linear system", 25)
    rep.rule("C17.R3", "stored states come out of step_callback", 8)
    rep.rule("C17.R4", "ScipyIVP / ScipyDAE assemblies", 10)
    rep.rule("C17.R5", "residual/Jacobian families of the implicit schemes", 12)
    rep.rule("C17.R7", "DualStormerVerlet's inner iteration (which enforces g, gamma at the end point) measures convergence on an iterate the map cannot overwrite", 2)
    from .c22 import r5_isolation
    r5_isolation(ctx, "C17.R7")
    rep.rule("C17.R6", "stored states are not modified after they were stored (K11 may-alias analysis)", 8)
    from .. import alias
    alias.report(rep, "C17.R6", ctx.repo, [(RT, "Rattle"), (BE, "BackwardEuler"), (MO, "Moreau"), (DSV, "DualStormerVerlet"),
                                           (DSV, None), (IVP, "ScipyIVP"), (DAE, "ScipyDAE")])
    # ---- R1
    for rel, cname, q, unknown in ((RT, "Rattle", "Rattle.R_x1", {"x1n1"}), (BE, "BackwardEuler", "BackwardEuler.R_x", {"xn1"})):
        fn = ctx.repo.get(rel, q)
        res = termset.Resolver(fn, ctx.repo.get(rel, cname))
        C = f"{rel}:{q}"
        found = set()
        for n in ast.walk(fn):
            m = termset.is_system_call(n)
            if m in ("g", "gamma"):
                found.add(m)
                t_ok = _is_end_time(res, n.args[0])
                q_ok = _depends_on(res, n.args[1], unknown)
                if t_ok and q_ok:
                    rep.ok("C17.R1", C, f"system.{m}({', '.join(norm_src(a) for a in n.args)}) at tn + dt on the unknown")
                else:
                    why = [] if t_ok else [f"time `{norm_src(n.args[0])}` is not tn + dt"]
                    why += [] if q_ok else [f"coordinates `{norm_src(n.args[1])}` do not depend on the unknown"]
                    rep.bad("C17.R1", C, n, f"constraint system.{m} is not enforced at the end point of the step: {'; '.join(why)}", f"{rel}:{n.lineno}")
        for m in ("g", "gamma"):
            if m not in found:
                rep.bad("C17.R1", C, f"row: {m}", f"the residual has no row system.{m}(...): bilateral constraints are not enforced", f"{rel}:{fn.lineno}")
    # DualStormerVerlet: fun -> self.c(tn1, qn1, un1, ...) -> system.g(t, q)
    fn = ctx.repo.get(DSV, "DualStormerVerlet._step")
    fun = ctx.repo.get(DSV, "DualStormerVerlet._step.fun")
    res = termset.Resolver(fn, ctx.repo.get(DSV, "DualStormerVerlet"))
    resf = termset.Resolver(fun)
    for k, v in res.local.items():
        resf.local.setdefault(k, v)
    C = f"{DSV}:DualStormerVerlet._step.fun"
    calls = [n for n in ast.walk(fun) if isinstance(n, ast.Call) and norm_src(n.func) == "self.c"]
    if not calls:
        rep.bad("C17.R1", C, "R2 = self.c(tn1, qn1, un1, ...)", "the Newton map no longer evaluates the combined constraints self.c", f"{DSV}:{fun.lineno}")
    for n in calls:
        t_ok = _is_end_time(resf, n.args[0])
        q_ok = _depends_on(resf, n.args[1], {"z0"})
        if t_ok and q_ok:
            rep.ok("C17.R1", C, f"self.c({', '.join(norm_src(a) for a in n.args[:3])}) at tn + dt on the unknown")
        else:
            rep.bad("C17.R1", C, n, "combined constraints are not evaluated at the end point of the step on the unknown", f"{DSV}:{n.lineno}")
    cf = ctx.repo.get(DSV, "DualStormerVerlet.c")
    fam = termset.Resolver(cf).families(cf)
    for m in ("g", "gamma", "c"):
        if m in fam:
            rep.ok("C17.R1", f"{DSV}:DualStormerVerlet.c", f"combined constraint vector contains system.{m}(t, q...)")
        else:
            rep.bad("C17.R1", f"{DSV}:DualStormerVerlet.c", f"row: {m}", f"combined constraint vector lacks system.{m}", f"{DSV}:{cf.lineno}")
    # ---- R2
    def check_point(rel, q, cname, want_t, want_q, skip=()):
        fn = ctx.repo.get(rel, q)
        C = f"{rel}:{q}"
        n_ = 0
        for n in walk_no_nested(fn):
            m = termset.is_system_call(n)
            if not m or m in skip or not n.args:
                continue
            a = [norm_src(x) for x in n.args]
            if len(a) < 2:
                continue
            n_ += 1
            if a[0] in want_t and a[1] in want_q:
                rep.ok("C17.R2", C, f"system.{m}({', '.join(a[:3])})")
            else:
                rep.bad("C17.R2", C, n, f"system.{m} is evaluated at ({a[0]}, {a[1]}) while the rest of the linear system uses ({sorted(want_t)[0]}, {sorted(want_q)[0]})",
                        f"{rel}:{n.lineno}")
        return n_
    # Moreau: midpoint system; the explicit half steps use (tn, qn) and (tn12, qn12)
    fn = ctx.repo.get(MO, "Moreau.step")
    C = f"{MO}:Moreau.step"
    for n in walk_no_nested(fn):
        m = termset.is_system_call(n)
        if not m or not n.args or len(n.args) < 2:
            continue
        a = [norm_src(x) for x in n.args]
        if m == "q_dot":
            okp = a[:2] in (["self.tn", "self.qn"], ["tn12", "qn12"])
        else:
            okp = a[:2] == ["tn12", "qn12"]
        if okp:
            rep.ok("C17.R2", C, f"system.{m}({', '.join(a[:3])})")
        else:
            rep.bad("C17.R2", C, n, f"system.{m} is evaluated at ({a[0]}, {a[1]}) instead of the midpoint (tn12, qn12)", f"{MO}:{n.lineno}")
    # Rattle stage 2 inside solve(): everything after stage 1 uses (tn1, qn1)
    fn = ctx.repo.get(RT, "Rattle.solve")
    C = f"{RT}:Rattle.solve"
    for n in walk_no_nested(fn):
        m = termset.is_system_call(n)
        if not m or m in ("step_callback",) or not n.args or len(n.args) < 2:
            continue
        a = [norm_src(x) for x in n.args]
        if a[:2] == ["tn1", "qn1"]:
            rep.ok("C17.R2", C, f"system.{m}({', '.join(a[:3])})")
        else:
            rep.bad("C17.R2", C, n, f"stage 2: system.{m} is evaluated at ({a[0]}, {a[1]}) instead of (tn1, qn1)", f"{RT}:{n.lineno}")
    for q in ("ScipyIVP.eqm", "ScipyIVP.la_g_la_gamma_la_c"):
        check_point(IVP, q, "ScipyIVP", {"t"}, {"q"})
    for q in ("ScipyDAE.fun", "ScipyDAE.jac"):
        check_point(DAE, q, "ScipyDAE", {"t"}, {"q"})
    # ---- R3
    for rel, q, lists in ((RT, "Rattle.solve", ("q", "u")), (BE, "BackwardEuler.solve", ("q", "u")), (MO, "Moreau.solve", ("q", "u")),
                          (DSV, "DualStormerVerlet._step", ("self.sol_q", "self.sol_u"))):
        fn = ctx.repo.get(rel, q)
        cfg = CFG(fn)
        rd = ReachingDefs(cfg)
        C = f"{rel}:{q}"
        scs = [n for n in cfg.nodes if n.kind == "stmt" and isinstance(n.ast, ast.Assign) and termset.is_system_call(n.ast.value) == "step_callback"]
        apps = [n for n in cfg.nodes if n.kind == "stmt" and isinstance(n.ast, ast.Expr) and isinstance(n.ast.value, ast.Call)
                and isinstance(n.ast.value.func, ast.Attribute) and n.ast.value.func.attr == "append" and norm_src(n.ast.value.func.value) in lists]
        tapp = [n for n in cfg.nodes if n.kind == "stmt" and isinstance(n.ast, ast.Expr) and isinstance(n.ast.value, ast.Call)
                and isinstance(n.ast.value.func, ast.Attribute) and n.ast.value.func.attr == "append"
                and norm_src(n.ast.value.func.value) in ("t", "self.sol_t")]
        if not apps:
            raise AnalysisError(f"{C}: appends to the q/u output lists not found")
        for ap in apps:
            arg = ap.ast.value.args[0]
            okk = False
            # value-preserving wrappers: x.copy(), np.copy(x), np.array(x), np.asarray(x)
            while isinstance(arg, ast.Call):
                if isinstance(arg.func, ast.Attribute) and arg.func.attr == "copy" and not arg.args and dotted(arg.func.value) not in ("np", "numpy"):
                    arg = arg.func.value
                elif dotted(arg.func) in ("np.copy", "np.array", "np.asarray") and len(arg.args) == 1:
                    arg = arg.args[0]
                else:
                    break
            if isinstance(arg, ast.Name) and scs:
                defs = rd.defs_reaching(ap, arg.id)
                if len(defs) == 1 and defs[0] in scs:
                    sc = defs[0]
                    # the time passed to step_callback is the time stored with this row
                    t_sc = norm_src(sc.ast.value.args[0])
                    t_ok = (not tapp) or any(norm_src(t.ast.value.args[0]) == t_sc for t in tapp)
                    okk = t_ok
                    if not t_ok:
                        rep.bad("C17.R3", C, sc.ast, f"step_callback is called with time `{t_sc}` but the row is stored under another time", f"{rel}:{sc.lineno}")
                        continue
            if okk:
                rep.ok("C17.R3", C, f"{norm_src(ap.ast)} <- {norm_src(defs[0].ast)}")
            else:
                rep.bad("C17.R3", C, ap.ast, f"`{norm_src(arg)}` is stored without having passed through system.step_callback (stored quaternions need not have unit length)",
                        f"{rel}:{ap.lineno}")
    # static Newton: step_callback writes back into self.x[i]
    fn = ctx.repo.get(ST, "Newton.solve")
    sc = [n for n in ast.walk(fn) if isinstance(n, ast.Assign) and termset.is_system_call(n.value) == "step_callback"]
    C = f"{ST}:Newton.solve"
    if sc and norm_src(sc[0].targets[0]).startswith("(self.x[i, :self.split_x[0]]") or (sc and norm_src(sc[0].targets[0]).startswith("self.x[i, :self.split_x[0]]")):
        a = [norm_src(x) for x in sc[0].value.args]
        if a[0] == "self.load_steps[i]" and a[1].startswith("self.x[i"):
            rep.ok("C17.R3", C, norm_src(sc[0])[:100])
        else:
            rep.bad("C17.R3", C, sc[0], "step_callback is not applied to the current load step's coordinates", f"{ST}:{sc[0].lineno}")
    else:
        rep.bad("C17.R3", C, "self.x[i, :nq], _ = self.system.step_callback(...)", "static Newton no longer normalises the stored coordinates", f"{ST}:{fn.lineno}")
    # ---- R4
    cls = ctx.repo.get(IVP, "ScipyIVP")
    eqm, post = ctx.repo.get(IVP, "ScipyIVP.eqm"), ctx.repo.get(IVP, "ScipyIVP.la_g_la_gamma_la_c")
    APP = {"h", "W_tau", "la_tau", "W_c", "la_c"}
    r1, r2 = termset.Resolver(eqm, cls), termset.Resolver(post, cls)
    s1 = termset.eom_sites(eqm, r1)
    s2 = termset.eom_sites(post, r2)
    f1 = set().union(*[f for _, f in s1]) & APP if s1 else set()
    C = f"{IVP}:ScipyIVP.la_g_la_gamma_la_c"
    if not s2:
        raise AnalysisError(f"{C}: no equations-of-motion expression found")
    for site, f in s2:
        f = f & APP
        if f == f1:
            rep.ok("C17.R4", C, f"`{norm_src(site)[:60]}` has the applied families of eqm {sorted(f1)}")
        else:
            rep.bad("C17.R4", C, site, f"reported accelerations/multipliers are computed from {sorted(f)} but the integrated equations use {sorted(f1)}", f"{IVP}:{site.lineno}")
    full = [f for _, f in s2 if {"W_g", "W_gamma"} <= f]
    if full:
        rep.ok("C17.R4", C, "u_dot is recomputed with the constraint forces W_g la_g + W_gamma la_gamma")
    else:
        rep.bad("C17.R4", C, "u_dot = spsolve(M, ...)", "reported accelerations omit the constraint forces", f"{IVP}:{post.lineno}")
    dcls = ctx.repo.get(DAE, "ScipyDAE")
    fun, jac = ctx.repo.get(DAE, "ScipyDAE.fun"), ctx.repo.get(DAE, "ScipyDAE.jac")
    rfun = termset.Resolver(fun, dcls)
    fam = rfun.families(fun)
    C = f"{DAE}:ScipyDAE.fun"
    for m in ("g", "g_dot", "gamma", "c", "q_dot", "M", "h", "W_g", "W_gamma", "W_c", "W_tau", "la_tau"):
        if m in fam:
            rep.ok("C17.R4", C, f"residual contains system.{m}")
        else:
            rep.bad("C17.R4", C, f"row: {m}", f"the DAE residual lacks system.{m}", f"{DAE}:{fun.lineno}")
    ggl = any(isinstance(n, ast.BinOp) and isinstance(n.op, ast.MatMult) and "g_q" in rfun.families(n.left) and norm_src(n.right) == "mu_g" and ".T" in norm_src(n.left)
              for n in ast.walk(fun))
    if ggl:
        rep.ok("C17.R4", C, "GGL stabilisation term g_q(t, q).T @ mu_g in the kinematic row")
    else:
        rep.bad("C17.R4", C, "g_q.T @ mu_g", "the GGL stabilisation term is missing: position and velocity constraints cannot both be kept", f"{DAE}:{fun.lineno}")
    jfam = termset.Resolver(jac, dcls).families(jac)
    for m, d in (("h", "h_q"), ("h", "h_u"), ("W_g", "Wla_g_q"), ("W_gamma", "Wla_gamma_q"), ("W_c", "Wla_c_q"), ("W_tau", "Wla_tau_q"), ("g", "g_q"),
                 ("g_dot", "g_dot_q"), ("g_dot", "g_dot_u"), ("gamma", "gamma_q"), ("gamma", "gamma_u"), ("c", "c_q"), ("c", "c_u"), ("M", "Mu_q")):
        if m in fam:
            if d in jfam:
                rep.ok("C17.R5", f"{DAE}:ScipyDAE.jac", f"{m} -> {d}")
            else:
                rep.bad("C17.R5", f"{DAE}:ScipyDAE.jac", f"derivative {d}", f"the residual contains system.{m} but the Jacobian never evaluates system.{d}", f"{DAE}:{jac.lineno}")
    # ---- R5
    for rel, cname, rq, jq in ((RT, "Rattle", "Rattle.R_x1", "Rattle._J_x1"), (BE, "BackwardEuler", "BackwardEuler.R_x", "BackwardEuler._J_x")):
        cls = ctx.repo.get(rel, cname)
        rf, jf = ctx.repo.get(rel, rq), ctx.repo.get(rel, jq)
        rfam = termset.Resolver(rf, cls).families(rf)
        jfam = termset.Resolver(jf, cls).families(jf)
        C = f"{rel}:{jq}"
        table = [("h", "h_u"), ("la_tau", "Wla_tau_u"), ("W_c", "W_c"), ("W_g", "W_g"), ("W_gamma", "W_gamma"), ("g", "g_q"), ("gamma", "gamma_q"),
                 ("gamma", "gamma_u"), ("c", "c_u"), ("c", "c_la_c"), ("q_dot", "q_dot_q"), ("q_dot", "q_dot_u")]
        if cname == "BackwardEuler":
            table += [("h", "h_q"), ("la_tau", "Wla_tau_q"), ("W_g", "Wla_g_q"), ("W_gamma", "Wla_gamma_q"), ("W_c", "Wla_c_q"), ("W_N", "Wla_N_q"),
                      ("W_F", "Wla_F_q"), ("c", "c_q"), ("M", "Mu_q")]
        for m, d in table:
            if m not in rfam:
                rep.bad("C17.R5", f"{rel}:{rq}", f"family {m}", f"the residual lacks system.{m}", f"{rel}:{rf.lineno}")
            elif d in jfam:
                rep.ok("C17.R5", C, f"{m} -> {d}")
            else:
                rep.bad("C17.R5", C, f"derivative {d}", f"the residual contains system.{m} but the Jacobian never evaluates system.{d}", f"{rel}:{jf.lineno}")


MUTANTS = [
    dict(id="c17-m1", canary=True, what="Rattle.R_x1 enforces g at the beginning of the step", file=RT,
         old="        R[self.split_x1[2] : self.split_x1[3]] = self.system.g(tn1, qn1)", new="        R[self.split_x1[2] : self.split_x1[3]] = self.system.g(tn, qn1)", expect="C17.R1"),
    dict(id="c17-m2", canary=True, what="BackwardEuler stores the un-normalised coordinates", file=BE,
         old="            qn1, un1 = self.system.step_callback(tn1, qn1, un1)\n\n            # store solution fields", new="            self.system.step_callback(tn1, qn1.copy(), un1.copy())\n\n            # store solution fields", expect="C17.R3"),
    dict(id="c17-m3", what="Moreau: W_g evaluated at the old configuration", file=MO,
         old="        W_g = self.system.W_g(tn12, qn12)", new="        W_g = self.system.W_g(self.tn, self.qn)", expect="C17.R2"),
    dict(id="c17-m4", what="Rattle stage 2: velocity constraint Jacobian at the old time", file=RT,
         old="            g_dot_u = self.system.g_dot_u(tn1, qn1)", new="            g_dot_u = self.system.g_dot_u(self.tn, qn1)", expect="C17.R2"),
    dict(id="c17-m5", what="ScipyDAE.fun loses the GGL term", file=DAE,
         old="            - self.system.q_dot(t, q, u)\n            - self.system.g_q(t, q, format=\"csc\").T @ mu_g\n", new="            - self.system.q_dot(t, q, u)\n", expect="C17.R4"),
    dict(id="c17-m6", what="ScipyIVP post-processing forgets the actuator forces", file=IVP,
         old="        Mhla_c = spsolve(M, h + W_tau @ la_tau + W_c @ la_c)", new="        Mhla_c = spsolve(M, h + W_c @ la_c)", expect="C17.R4"),
    dict(id="c17-m7", what="BackwardEuler._J_x forgets the constraint-force stiffness Wla_g_q", file=BE,
         old="            - self.system.Wla_g_q(tn1, qn1, dP_gn1)\n", new="", expect="C17.R5"),
    dict(id="c17-m8", what="BackwardEuler.R_x: gamma evaluated on the old velocity", file=BE,
         old="        R_x[self.split_x[2] : self.split_x[3]] = self.system.gamma(tn1, qn1, un1)", new="        R_x[self.split_x[2] : self.split_x[3]] = self.system.gamma(tn1, qn, un1)", expect="C17.R1"),
    dict(id="c17-m9", what="DualStormerVerlet: constraints evaluated at the midpoint", file=DSV,
         old="            R2 = self.c(tn1, qn1, un1, Pin1 / dt, dt=dt)", new="            R2 = self.c(tm, qm, un1, Pin1 / dt, dt=dt)", expect="C17.R1"),
    dict(id="c17-m10", what="Rattle stores u before step_callback (callback result for u dropped)", file=RT,
         old="            qn1, un1 = self.system.step_callback(tn1, qn1, un1)\n\n            t.append(tn1)", new="            qn1, _ = self.system.step_callback(tn1, qn1, un1)\n\n            t.append(tn1)", expect="C17.R3"),
]
MUTANTS += [
    dict(id="c17-r6-1", canary=True, what="BackwardEuler updates the stored previous state in place instead of allocating the new one", file=BE,
         old="            qn1 = self.qn + dqn1\n", new="            self.qn += dqn1\n            qn1 = self.qn\n", expect="C17.R6"),
    dict(id="c17-r6-2", what="Moreau.step computes the midpoint in the buffer of the stored previous coordinates", file=MO,
         old="        self.qn12 = qn12 = self.qn + 0.5 * dt * self.system.q_dot(self.tn, self.qn, un)",
         new="        self.qn12 = qn12 = self.qn\n        qn12 += 0.5 * dt * self.system.q_dot(self.tn, self.qn, un)", expect="C17.R6"),
    dict(id="c17-r6-3", what="Rattle normalises the accepted state a second time after storing it", file=RT,
         old="            self.qn = qn1\n            self.un = un1\n\n        self.solver_summary.print()",
         new="            self.qn, self.un = self.system.step_callback(tn1, qn1, un1)\n\n        self.solver_summary.print()", expect="C17.R6"),
    dict(id="c17-r6-4", what="DualStormerVerlet keeps the stored velocity as work buffer of the next step", file=DSV,
         old="        self.un = un1.copy()\n", new="        self.un = un1\n        self.un[:] = un1\n", expect="C17.R6"),
]
MUTANTS += [
    dict(id="c17-r7-seed", canary=True, what="[seeded by sub-agent] fixed_point_iteration evaluates the in-place Newton map on the live iterate (copies removed)", file=DSV,
         old="        x_new = fun(x.copy())\n", new="        x_new = fun(x)\n", expect="C17.R7"),
]
NEUTRAL = [
    dict(id="c17-n1", canary=True, what="BackwardEuler: in-place update of a private copy of the previous state", file=BE,
         old="            qn1 = self.qn + dqn1\n", new="            qn1 = self.qn.copy()\n            qn1 += dqn1\n"),
    dict(id="c17-n2", what="Rattle stores copies of the accepted state", file=RT,
         old="            q.append(qn1)\n            u.append(un1)\n            la_c.append(0.5", new="            q.append(qn1.copy())\n            u.append(un1.copy())\n            la_c.append(0.5"),
]
SYSF = "cardillo/system.py"
MUTANTS += [
    dict(id="c17-r8-seed", canary=True, what="[seeded by sub-agent] System.step_callback evaluates every callback on a snapshot of the state", file=SYSF,
         old="        for contr in self.__step_callback_contr:\n            q[contr.qDOF], u[contr.uDOF] = contr.step_callback(\n                t, q[contr.qDOF], u[contr.uDOF]\n            )\n",
         new="        qn, un = q.copy(), u.copy()\n        for contr in self.__step_callback_contr:\n            q[contr.qDOF], u[contr.uDOF] = contr.step_callback(\n                t, qn[contr.qDOF], un[contr.uDOF]\n            )\n", expect="C17.R8"),
    dict(id="c17-r8-2", what="System.step_callback works on copies and returns the originals", file=SYSF,
         old="    def step_callback(self, t, q, u):\n        for contr in self.__step_callback_contr:\n            q[contr.qDOF], u[contr.uDOF] = contr.step_callback(\n                t, q[contr.qDOF], u[contr.uDOF]\n            )\n",
         new="    def step_callback(self, t, q, u):\n        qc, uc = q.copy(), u.copy()\n        for contr in self.__step_callback_contr:\n            qc[contr.qDOF], uc[contr.uDOF] = contr.step_callback(\n                t, qc[contr.qDOF], uc[contr.uDOF]\n            )\n", expect="C17.R8"),
]
NEUTRAL += [
    dict(id="c17-n-r8", canary=True, what="System.step_callback works on copies throughout and returns them", file=SYSF,
         old="    def step_callback(self, t, q, u):\n        for contr in self.__step_callback_contr:\n            q[contr.qDOF], u[contr.uDOF] = contr.step_callback(\n                t, q[contr.qDOF], u[contr.uDOF]\n            )\n        return q, u\n",
         new="    def step_callback(self, t, q, u):\n        qc, uc = q.copy(), u.copy()\n        for contr in self.__step_callback_contr:\n            qc[contr.qDOF], uc[contr.uDOF] = contr.step_callback(\n                t, qc[contr.qDOF], uc[contr.uDOF]\n            )\n        return qc, uc\n"),
]
MUTANTS += [
    dict(id="c17-r9-seed", canary=True, what="[seeded by sub-agent] Moreau: contact response superposed onto a right-hand side that still carries the constraint rows", file=MO,
         edits=[(MO, "                bb = b.copy()\n                bb[: self.nu] += self.W_N @ P_N + self.W_F @ P_F\n", "                bb = b.copy()\n                bb[: self.nu] = self.W_N @ P_N + self.W_F @ P_F\n"),
                (MO, "                x = lu_A.solve(bb)\n", "                x = x0 + lu_A.solve(bb)\n")], expect="C17.R9"),
]
NEUTRAL += [
    dict(id="c17-n-r9", canary=True, what="Moreau: correct superposition (contact response on a zero right-hand side)", file=MO,
         edits=[(MO, "                bb = b.copy()\n                bb[: self.nu] += self.W_N @ P_N + self.W_F @ P_F\n", "                bb = np.zeros_like(b)\n                bb[: self.nu] = self.W_N @ P_N + self.W_F @ P_F\n"),
                (MO, "                x = lu_A.solve(bb)\n", "                x = x0 + lu_A.solve(bb)\n")]),
]
MUTANTS += [
    dict(id="c17-r10-seed", canary=True, what="[seeded by sub-agent] ScipyIVP copies the accelerations / multipliers at t0 from the assembly snapshot", file=IVP,
         old="        for i, (ti, qi, ui) in enumerate(zip(t, q, u)):\n", new="        u_dot[0] = self.system.u_dot0\n        for i, (ti, qi, ui) in enumerate(zip(t, q, u)):\n", expect="C17.R10"),
]

MUTANTS += [
    dict(id="c17-r11-seed", canary=True, what="[seeded by sub-agent] ScipyIVP.la_g_la_gamma_la_c applies 1 / M.diagonal() instead of solving with M", file='cardillo/solver/scipy_ivp.py',
         edits=[('cardillo/solver/scipy_ivp.py', 'from scipy.sparse import bmat, csc_array\n', 'from scipy.sparse import bmat, csc_array, diags_array\n'), ('cardillo/solver/scipy_ivp.py', '        M = self.system.M(t, q, format="csc")\n        h = self.system.h(t, q, u)\n\n        if self.nla_g > 0:\n            MW_g = (spsolve(M, W_g)).reshape((self.nu, self.nla_g))\n        else:\n            MW_g = csc_array((self.nu, self.nla_g))\n        if self.nla_gamma > 0:\n            MW_gamma = (spsolve(M, W_gamma)).reshape((self.nu, self.nla_gamma))\n        else:\n            MW_gamma = csc_array((self.nu, self.nla_gamma))\n        Mhla_c = spsolve(M, h + W_tau @ la_tau + W_c @ la_c)\n\n', '        h = self.system.h(t, q, u)\n\n        M_inv = diags_array(1 / self.system.M(t, q).diagonal())\n        MW_g = M_inv @ W_g\n        MW_gamma = M_inv @ W_gamma\n        Mhla_c = M_inv @ (h + W_tau @ la_tau + W_c @ la_c)\n\n'), ('cardillo/solver/scipy_ivp.py', '        u_dot = spsolve(\n            M, h + W_tau @ la_tau + W_c @ la_c + W_g @ la_g + W_gamma @ la_gamma\n        )\n', '        u_dot = Mhla_c + MW_g @ la_g + MW_gamma @ la_gamma\n')], expect="C17.R11"),
]
NEUTRAL += [
    dict(id="c17-n-r11", canary=True, what="ScipyIVP.la_g_la_gamma_la_c factorises M once (splu) and reuses the factorisation for u_dot", file='cardillo/solver/scipy_ivp.py',
         edits=[('cardillo/solver/scipy_ivp.py', "from scipy.sparse.linalg import spsolve\n", "from scipy.sparse.linalg import spsolve, splu\n"),
                ('cardillo/solver/scipy_ivp.py', '        u_dot = spsolve(\n            M, h + W_tau @ la_tau + W_c @ la_c + W_g @ la_g + W_gamma @ la_gamma\n        )\n', "        u_dot = splu(M).solve(h + W_tau @ la_tau + W_c @ la_c + W_g @ la_g + W_gamma @ la_gamma)\n")]),
]

MUTANTS += [
    dict(id="c17-r12-seed", canary=True, what="[seeded by sub-agent] consistent_initial_conditions: the projection of the initial state moved below the early exit for assemblies without consistent initial conditions", file='cardillo/solver/_base.py',
         old='    # normalize quaternions etc.\n    q0, u0 = system.step_callback(t0, q0, u0)\n\n    q_dot0 = system.q_dot(t0, q0, u0)\n\n    if (\n        not options.compute_consistent_initial_conditions or system.nu == 0\n    ):  # second case can happen during debugging, when only frames are added to the system\n        return (\n            t0,\n            q0,\n            u0,\n            q_dot0,\n            np.zeros(system.nu),\n            np.zeros(system.nla_g),\n            np.zeros(system.nla_gamma),\n            np.zeros(system.nla_c),\n            np.zeros(system.nla_N),\n            np.zeros(system.nla_F),\n        )\n\n', new='    q_dot0 = system.q_dot(t0, q0, u0)\n\n    if (\n        not options.compute_consistent_initial_conditions or system.nu == 0\n    ):  # second case can happen during debugging, when only frames are added to the system\n        return (\n            t0,\n            q0,\n            u0,\n            q_dot0,\n            np.zeros(system.nu),\n            np.zeros(system.nla_g),\n            np.zeros(system.nla_gamma),\n            np.zeros(system.nla_c),\n            np.zeros(system.nla_N),\n            np.zeros(system.nla_F),\n        )\n\n    # normalize quaternions etc.\n    q0, u0 = system.step_callback(t0, q0, u0)\n    q_dot0 = system.q_dot(t0, q0, u0)\n\n', expect="C17.R12"),
]

MUTANTS += [
    dict(id="c17-r13-seed", canary=True, what="[seeded by sub-agent] BackwardEuler.solve shortens the LABEL of the last step (dt = min(self.dt, t1 - tn)) while R_x keeps solving with self.dt", file='cardillo/solver/backward_euler.py',
         old="            tn1 = self.tn + self.dt\n", new="            dt = min(self.dt, self.t1 - self.tn)\n            tn1 = self.tn + dt\n", expect="C17.R13"),
]

RB17 = "cardillo/discrete/rigid_body.py"
MUTANTS += [
    dict(id="c17-r14-seed", canary=True, what="[seeded by sub-agent] RigidBody.step_callback skips the projection for quaternions np.isclose to unit length", file=RB17,
         old="        q[3:] = q[3:] / norm(q[3:])\n        return q, u", new="        p_norm = norm(q[3:])\n        if not np.isclose(p_norm, 1.0):\n            q[3:] = q[3:] / p_norm\n        return q, u", expect="C17.R14"),
    dict(id="c17-r14-div", what="rods: nodal quaternions divided by the squared length", file="cardillo/rods/_base.py",
         old="            q[self.nodalDOF_p[node]] = p / norm(p)", new="            q[self.nodalDOF_p[node]] = p / (p @ p)", expect="C17.R14"),
]
NEUTRAL += [
    dict(id="c17-n-r14", canary=True, what="RigidBody.step_callback with the norm hoisted into a local and an in-place division", file=RB17,
         old="        q[3:] = q[3:] / norm(q[3:])\n        return q, u", new="        p_norm = norm(q[3:])\n        q[3:] /= p_norm\n        return q, u"),
]
