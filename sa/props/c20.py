"""C20  Solver results honour the Solution contract.

Structural clauses decided:
 R1 one row per instant   in Rattle.solve, BackwardEuler.solve, DualStormerVerlet (solve/_step), Moreau.solve and Riks.solve every
                          list that ends up in Solution(...) is created with exactly one element and appended exactly once per
                          time step: the append nodes form a chain in which the first dominates the others and no path leaves the
                          step (next iteration, normal exit, truncated return) between the first and the last append
 R2 grid start            the time list starts with the initial time (self.tn / system.t0); pre-computed grids start at t0
 R3 grid/loop pairing     Moreau pairs its pre-computed grid self.t with a loop over self.t[1:]; the other fixed-step solvers
                          append tn1 = self.tn + self.dt in the same chain as the states
 R4 array fields          every field a solver passes to Solution is an array expression of the row-list (np.array(list), slices of
                          one state array, arrays allocated with the number of time instants), so per-instant indexing is total
 R6 step count            the iterable of the time-step loop of every fixed-step solver (resolved through tqdm, locals and self
                          attributes) depends on all of t0, t1 and dt: time_grid(t0, t1, dt)[:-1] (one iteration per step) or the
                          stored grid[1:]
 R7 stored rows           (K11) row k of every stored field still is what was stored at instant k: no stored row shares memory with a
                          buffer that is modified in place afterwards
 R8 equal row counts      static Newton: every field of a returned Solution (early truncated return, final return, also through a
                          helper method) has the same number of rows
 R9 robust step count     no float-step np.arange and no ceil of a bare quotient by dt decides where a time grid ends (numpy documents
                          the length of a float-step arange as ceil of a floating-point quotient, which rounds across the integer for
                          final times that are decimal multiples of the step - the case C20's quantifier names); the shared helper
                          time_grid rounds `quotient - tolerance` and builds the grid from an integer arange; every fixed-step solver uses it
 R5 wrappers              ScipyIVP allocates its post-processed fields with nt = len(t) rows and fills row i in a loop over
                          zip(t, q, u); ScipyDAE transposes every field of sol.y / sol.yp
"""
from __future__ import annotations

import ast

from ..core import AnalysisError, dotted, norm_src, walk_no_nested
from ..cfg import CFG

EXPLANATION = ("CFG dominance / must-pass-through analysis of the append statements of every output list, structural checks "
               "of list initialisation, grid/loop pairing and of the array expressions handed to Solution.")
NOT_DECIDED = ("that the tolerance 1e-9 in time_grid is the right one for every (t0, t1, dt) (a value fact; R9 decides the idiom, not the "
               "arithmetic), field widths, the dill round trip.")
ASSUMPTIONS = ["Solution stores the arrays it is given without reshaping"]
BLIND_SPOTS = ["SolutionIterator.__next__ can reach `return result` with result unbound after its bare except (not reachable with array fields)"]

SOLVERS = [
    ("cardillo/solver/rattle.py", "Rattle.solve", None),
    ("cardillo/solver/backward_euler.py", "BackwardEuler.solve", None),
    ("cardillo/solver/moreau.py", "Moreau.solve", None),
    ("cardillo/solver/statics.py", "Riks.solve", None),
    ("cardillo/solver/dual_stormer_verlet.py", "DualStormerVerlet.solve", "DualStormerVerlet._step"),
]


def _solution_lists(fn):
    """names X such that Solution(...)/make_solution gets np.array(X)/np.asarray(X) (possibly scaled)."""
    out = {}
    for n in ast.walk(fn):
        if isinstance(n, ast.Call) and (dotted(n.func) or "").split(".")[-1] == "Solution":
            for k in n.keywords:
                for c in ast.walk(k.value):
                    if isinstance(c, ast.Call) and dotted(c.func) in ("np.array", "np.asarray") and c.args:
                        x = norm_src(c.args[0])
                        if k.arg == "t" and not any(isinstance(a, ast.Assign) and any(norm_src(t) == x for t in a.targets) for a in ast.walk(fn)):
                            continue  # pre-computed grid (Moreau: self.t = np.arange(...)), decided by R3
                        out.setdefault(x, []).append(k.arg)
    return out


def _append_to(node, name):
    a = node.ast
    return node.kind == "stmt" and isinstance(a, ast.Expr) and isinstance(a.value, ast.Call) and isinstance(a.value.func, ast.Attribute) \
        and a.value.func.attr == "append" and norm_src(a.value.func.value) == name


CANON = ("t0", "t1", "dt")
TIME_SOLVERS = [("cardillo/solver/rattle.py", "Rattle"), ("cardillo/solver/backward_euler.py", "BackwardEuler"),
                ("cardillo/solver/dual_stormer_verlet.py", "DualStormerVerlet"), ("cardillo/solver/moreau.py", "Moreau")]


def _leaves(expr, fn, cls, depth=0, seen=None):
    """canonical time leaves (t0/t1/dt) the expression depends on, through locals and self attributes."""
    seen = seen if seen is not None else set()
    out = set()
    for n in ast.walk(expr):
        d = dotted(n) if isinstance(n, (ast.Name, ast.Attribute)) else None
        if not d:
            continue
        last = d.split(".")[-1]
        if last in CANON:
            out.add(last)
            continue
        if depth > 5 or d in seen:
            continue
        if isinstance(n, ast.Name):
            defs = [a for a in ast.walk(fn) if isinstance(a, ast.Assign) and any(isinstance(t, ast.Name) and t.id == d for t in a.targets)]
        elif d.startswith("self.") and d.count(".") == 1:
            defs = [a for a in ast.walk(cls) if isinstance(a, ast.Assign) and any(norm_src(t) == d for t in a.targets)]
        else:
            defs = []
        for a in defs:
            out |= _leaves(a.value, fn, cls, depth + 1, seen | {d})
    return out


def _strip_iter(expr, fn, cls, depth=0):
    """tqdm(X, ...) -> X ; name/self attr with a single definition -> its value; X[1:] -> X."""
    while depth < 8:
        depth += 1
        if isinstance(expr, ast.Call) and (dotted(expr.func) or "").split(".")[-1] in ("tqdm", "enumerate", "list", "trange") and expr.args:
            expr = expr.args[0]
            continue
        if isinstance(expr, ast.Subscript):
            expr = expr.value
            continue
        d = dotted(expr) if isinstance(expr, (ast.Name, ast.Attribute)) else None
        if d and d.split(".")[-1] not in CANON:
            scope = fn if isinstance(expr, ast.Name) else cls
            defs = [a for a in ast.walk(scope) if isinstance(a, ast.Assign) and any(norm_src(t) == d for t in a.targets)]
            if len(defs) == 1:
                expr = defs[0].value
                continue
        break
    return expr


def _closure(expr, fn, cls, depth=0, seen=None):
    """the expression and the defining expressions of the locals / self attributes it uses."""
    seen = seen if seen is not None else set()
    out = [expr]
    if depth > 5:
        return out
    for n in ast.walk(expr):
        d = dotted(n) if isinstance(n, (ast.Name, ast.Attribute)) else None
        if not d or d in seen or d.split(".")[-1] in CANON:
            continue
        if isinstance(n, ast.Name):
            defs = [a for a in ast.walk(fn) if isinstance(a, ast.Assign) and any(isinstance(t, ast.Name) and t.id == d for t in a.targets)]
        elif d.startswith("self.") and d.count(".") == 1:
            defs = [a for a in ast.walk(cls) if isinstance(a, ast.Assign) and any(norm_src(t) == d for t in a.targets)]
        else:
            defs = []
        seen.add(d)
        for a in defs:
            out += _closure(a.value, fn, cls, depth + 1, seen)
    return out


def _strip_tqdm(expr, fn, cls):
    """like _strip_iter but stops at the first Subscript (to recognise grid[1:])."""
    depth = 0
    while depth < 8:
        depth += 1
        if isinstance(expr, ast.Call) and (dotted(expr.func) or "").split(".")[-1] in ("tqdm", "enumerate", "list") and expr.args:
            expr = expr.args[0]
            continue
        d = dotted(expr) if isinstance(expr, (ast.Name, ast.Attribute)) else None
        if d and d.split(".")[-1] not in CANON:
            scope = fn if isinstance(expr, ast.Name) else cls
            defs = [a for a in ast.walk(scope) if isinstance(a, ast.Assign) and any(norm_src(t) == d for t in a.targets)]
            if len(defs) == 1:
                expr = defs[0].value
                continue
        break
    return expr


def r6_step_count(ctx):
    rep = ctx.rep
    for rel, cname in TIME_SOLVERS:
        cls = ctx.repo.get(rel, cname)
        fn = ctx.repo.get(rel, f"{cname}.solve")
        C = f"{rel}:{cname}.solve"
        loops = []
        for n in walk_no_nested(fn):
            if isinstance(n, ast.For):
                has_step = any(isinstance(c, ast.Call) and isinstance(c.func, ast.Attribute) and (c.func.attr == "append" or c.func.attr in ("_step", "step", "_solve_nonlinear_system"))
                               for c in ast.walk(n))
                outer = True
                p = getattr(n, "_parent", None)
                while p is not None and p is not fn:
                    if isinstance(p, (ast.For, ast.While)):
                        outer = False
                    p = getattr(p, "_parent", None)
                if has_step and outer:
                    loops.append(n)
        whiles = []
        for n in walk_no_nested(fn):
            if isinstance(n, ast.While) and any(isinstance(c, ast.Call) and isinstance(c.func, ast.Attribute) and c.func.attr in ("_step", "step", "_solve_nonlinear_system", "append")
                                                for c in ast.walk(n)):
                p = getattr(n, "_parent", None)
                outer = True
                while p is not None and p is not fn:
                    if isinstance(p, (ast.For, ast.While)):
                        outer = False
                    p = getattr(p, "_parent", None)
                if outer:
                    whiles.append(n)
        if whiles and not loops:
            w = whiles[0]
            rep.bad("C20.R6", C, w.test, f"the time-step loop is `while {norm_src(w.test)[:60]}`: the number of steps is decided by comparing an ACCUMULATED floating-point time with the final time "
                    "instead of by the shared grid (time_grid): for a final time that is a decimal multiple of dt the running sum can land one ulp below it (0.1 * 8 = 0.7999999999999999) and "
                    "one step too many is taken, so the grid does not end at the first point at or after t1", f"{rel}:{w.lineno}")
            continue
        if len(loops) != 1:
            raise AnalysisError(f"{C}: expected exactly one outer time-step loop, found {len(loops)}")
        loop = loops[0]
        it = _strip_iter(loop.iter, fn, cls)
        dep = _leaves(it, fn, cls)
        missing = [c for c in CANON if c not in dep]
        if missing:
            rep.bad("C20.R6", C, it, f"the number of time steps ({norm_src(it)[:80]}) does not depend on {', '.join(missing)}: the grid cannot end at the first point at or after t1 "
                    f"for every initial time, final time and step", f"{rel}:{loop.lineno}")
            continue
        if isinstance(it, ast.Call) and (dotted(it.func) or "").split(".")[-1] == "time_grid":
            # shared helper: time_grid(t0, t1, dt) = the grid from t0 to the first point at or after t1 (n + 1 points).
            # counting idiom iterates grid[:-1] (n steps), grid idiom iterates grid[1:] and stores the grid as time field.
            pos = [_leaves(a, fn, cls) for a in it.args]
            okp = len(it.args) == 3 and "t0" in pos[0] and "t1" not in pos[0] and pos[1] == {"t1"} and pos[2] == {"dt"}
            raw = _strip_tqdm(loop.iter, fn, cls)
            sl = norm_src(raw.slice) if isinstance(raw, ast.Subscript) else None
            if not okp:
                rep.bad("C20.R6", C, it, "time_grid must be called with (initial time, final time, step)", f"{rel}:{loop.lineno}")
            elif sl in (":-1", "1:"):
                rep.ok("C20.R6", C, f"step loop over {norm_src(raw)}: one iteration per step of the grid from t0 to the first point at or after t1")
            else:
                rep.bad("C20.R6", C, raw, f"the step loop iterates `{norm_src(raw)[:80]}`: the grid has one point more than there are steps, so iterating it whole (or another slice) "
                        "takes a step beyond the first grid point at or after t1 (or stops before it)", f"{rel}:{loop.lineno}")
            continue
        if isinstance(it, ast.Call) and (dotted(it.func) or "").split(".")[-1] == "arange":
            if len(it.args) != 3:
                rep.bad("C20.R6", C, it, "np.arange grid without explicit (start, stop, step)", f"{rel}:{loop.lineno}")
                continue
            pos = [_leaves(a, fn, cls) for a in it.args]
            want = (("t0",), ("t1",), ("dt",))
            okp = "t0" in pos[0] and "t1" not in pos[0] and "t1" in pos[1] and "t0" not in pos[1] and pos[2] == {"dt"}
            # counting idiom (whole arange iterated, time advanced per step): stop = t1 gives ceil((t1 - t0)/dt) steps;
            # grid idiom (grid[1:] iterated, the grid is the time field): stop = t1 + dt so that the grid reaches t1
            sliced = isinstance(_strip_tqdm(loop.iter, fn, cls), ast.Subscript)
            if okp and sliced and pos[1] != {"t1", "dt"}:
                rep.bad("C20.R6", C, it, "pre-computed grid iterated from its second point must extend to t1 + dt, otherwise it ends before the final time", f"{rel}:{loop.lineno}")
                continue
            if okp and not sliced and pos[1] != {"t1"}:
                rep.bad("C20.R6", C, it, "a step-counting np.arange(t0, stop, dt) must stop at t1: any larger stop adds a step beyond the first grid point at or after t1",
                        f"{rel}:{loop.lineno}")
                continue
            if okp:
                rep.ok("C20.R6", C, f"step loop over {norm_src(it)}: start from t0, stop from t1, step dt")
            else:
                rep.bad("C20.R6", C, it, "np.arange grid whose (start, stop, step) are not (t0, t1[+dt], dt)", f"{rel}:{loop.lineno}")
        else:
            # other idioms: a count must be built from the span t1 - t0
            exprs = _closure(it, fn, cls)
            span = any(isinstance(b, ast.BinOp) and isinstance(b.op, ast.Sub) and "t1" in _leaves(b.left, fn, cls) and "t0" in _leaves(b.right, fn, cls)
                       for e in exprs for b in ast.walk(e)) or \
                any(isinstance(c, ast.Call) and (dotted(c.func) or "").split(".")[-1] in ("linspace", "arange", "time_grid") for e in exprs for c in ast.walk(e))
            if span:
                rep.ok("C20.R6", C, f"step loop over {norm_src(it)[:100]}: depends on t0, t1, dt through the span t1 - t0")
            else:
                rep.bad("C20.R6", C, it, "the step count mentions t0, t1 and dt but not the span t1 - t0 (nor a grid from t0 to t1)", f"{rel}:{loop.lineno}")


SOLN = "cardillo/solver/solution.py"


def file_name_injective(ctx, rule="C20.R12"):
    """'Saving and loading a solution preserves every field' for every name the user chooses: two different names must be two different files.
    A normalisation that REPLACES what follows the last dot is not injective - the later save overwrites the earlier one and load returns
    another run (other grid, other row count)."""
    rep = ctx.rep
    mod = ctx.repo.module(SOLN)
    defs = {q: f for q, f in mod.defs().items() if isinstance(f, ast.FunctionDef)}
    LOSSY = {"with_suffix", "splitext", "with_name", "with_stem", "rsplit", "rpartition"}
    n = 0
    for q, fn in defs.items():
        if not any(k in fn.name for k in ("load", "save")):
            continue
        for op in [w for w in ast.walk(fn) if isinstance(w, ast.Call) and (dotted(w.func) or "").split(".")[-1] == "open" and w.args]:
            n += 1
            C = f"{SOLN}:{q}"
            work, seen, lossy = [op.args[0]], set(), None
            while work and lossy is None:
                e = work.pop()
                for x in ast.walk(e):
                    if isinstance(x, ast.Call):
                        nm = (dotted(x.func) or "").split(".")[-1] or (x.func.attr if isinstance(x.func, ast.Attribute) else "")
                        if isinstance(x.func, ast.Attribute) and x.func.attr in LOSSY or nm in LOSSY:
                            lossy = x
                            break
                        if nm in defs and nm not in seen:
                            seen.add(nm)
                            work += [r.value for r in ast.walk(defs[nm]) if isinstance(r, ast.Return) and r.value is not None]
                    elif isinstance(x, ast.Attribute) and x.attr in ("stem",):
                        lossy = x
                        break
            if lossy is not None:
                rep.bad(rule, C, op, f"the file opened is `{norm_src(op.args[0])[:50]}`, which goes through `{norm_src(lossy)[:50]}`: everything after the last dot of the given name is replaced, so names "
                        "that differ only there (a step-size study: sol_dt0.01, sol_dt0.02) share one file and load_solution returns another run's grid and rows", f"{SOLN}:{op.lineno}")
            else:
                rep.ok(rule, C, f"opens `{norm_src(op.args[0])[:40]}` (the given name, nothing cut)")
    if n < 2:
        raise AnalysisError(f"{SOLN}: fewer than 2 open(...) calls in the save / load helpers")


def io_not_memoised(ctx):
    """"Saving and loading a solution preserves every field": load_solution returns what is in the file NOW.  A memoised load (keyed by the
    file name) hands back the solution that was in the file when it was first read - after a second save under the same name every field,
    the grid and the row count belong to the old run - and all callers share one mutable object."""
    rep = ctx.rep
    mod = ctx.repo.module(SOLN)
    n = 0
    for q, fn in mod.defs().items():
        if not isinstance(fn, ast.FunctionDef) or not any(k in fn.name for k in ("load", "save")):
            continue
        n += 1
        C = f"{SOLN}:{q}"
        decos = [d for d in fn.decorator_list if (dotted(d.func if isinstance(d, ast.Call) else d) or "").split(".")[-1] in ("lru_cache", "cache", "cached", "cachedmethod", "memoize")]
        if decos:
            rep.bad("C20.R11", C, decos[0], f"`@{norm_src(decos[0])}` memoises `{fn.name}` by its arguments (the file name): after the file has been written again the old Solution is returned, "
                    "and every caller receives the same mutable object", f"{SOLN}:{fn.lineno}")
        else:
            rep.ok("C20.R11", C, "reads / writes the file on every call (not memoised)")
    if n < 2:
        raise AnalysisError(f"{SOLN}: save / load helpers not found")


def fresh_iterator_per_pass(ctx, rule="C20.R13"):
    """"Iterating the solution yields one record per instant" holds for EVERY iteration, also two that overlap (zip(sol, sol), nested
    loops, an export while another pass is suspended): Solution.__iter__ hands out a new cursor on every call - a constructor call or a
    generator - never an object it keeps on the solution (`self._iterator`, rewound on each call: all passes then share one index)."""
    rep = ctx.rep
    mod = ctx.repo.module(SOLN)
    its = [(q, f) for q, f in mod.defs().items() if isinstance(f, ast.FunctionDef) and f.name == "__iter__" and "SolutionIterator" not in q]
    if not its:
        raise AnalysisError(f"{SOLN}: Solution.__iter__ vanished")
    for q, f in its:
        C = f"{SOLN}:{q}"
        if any(isinstance(w, (ast.Yield, ast.YieldFrom)) for w in walk_no_nested(f)):
            rep.ok(rule, C, "generator function: every call starts a new pass")
            continue
        binds = {}
        for w in ast.walk(f):
            if isinstance(w, ast.Assign) and len(w.targets) == 1 and isinstance(w.targets[0], ast.Name):
                binds.setdefault(w.targets[0].id, []).append(w.value)
        stored = {norm_src(t) for w in ast.walk(f) if isinstance(w, ast.Assign) for t in w.targets if isinstance(t, (ast.Attribute, ast.Subscript))}
        rets = [r for r in ast.walk(f) if isinstance(r, ast.Return) and r.value is not None]
        if not rets:
            rep.bad(rule, C, f.name, "__iter__ returns nothing", f"{SOLN}:{f.lineno}")
        for r in rets:
            vals = [r.value]
            if isinstance(r.value, ast.Name) and r.value.id in binds:
                vals = binds[r.value.id]
            for v in vals:
                root = v
                while isinstance(root, (ast.Attribute, ast.Subscript)):
                    root = root.value
                if isinstance(v, (ast.Attribute, ast.Subscript)) and isinstance(root, ast.Name) and root.id in ("self", f.args.args[0].arg):
                    rep.bad(rule, C, r, f"__iter__ returns `{norm_src(v)}`, an object kept on the solution: every `iter(sol)` hands out the SAME cursor (and rewinds it), so two passes "
                            "that overlap - zip(sol, sol), nested loops, an export during another pass - steal each other's records; one pass no longer yields one record per instant",
                            f"{SOLN}:{r.lineno}")
                elif isinstance(v, ast.Call) and not any(norm_src(v) == norm_src(b) for t in stored for b in [v] if False):
                    # a call result that is ALSO stored on the solution (self._it = X(self); return self._it) is caught through the attribute return above
                    rep.ok(rule, C, f"returns the new object `{norm_src(v)[:60]}`")
                else:
                    rep.note(f"{rule}: {C}: returned expression `{norm_src(v)[:60]}` not classified; not decided")


def iterator_rows(ctx):
    """"Iterating the solution yields one record per instant equal to the corresponding ROWS": every element selection the iterator (and its
    helpers) applies to a solution field with the running index selects along the LEADING axis (`field[self._index]`).  A selection along
    another axis (`field[:, i]`, `field[..., i]`) is admitted only under a guard that cannot hold for a stored field with one row per instant
    (`field.shape[0] == 0`, the empty case); a guard that compares another axis with the number of instants holds for a properly stored field
    whose width happens to equal the number of instants (6 velocities, 6 steps) and transposes that record."""
    from ..model import guards_of
    rep = ctx.rep
    mod = ctx.repo.module(SOLN)
    fns = [f for q, f in mod.defs().items() if isinstance(f, ast.FunctionDef) and ".SolutionIterator." in "." + q + "." or (isinstance(f, ast.FunctionDef) and "SolutionIterator" in q)]
    nxt = [f for f in fns if f.name == "__next__"]
    if not nxt:
        raise AnalysisError(f"{SOLN}: SolutionIterator.__next__ vanished")
    n = 0
    for f in fns:
        if f.name in ("__init__", "__iter__"):
            continue
        C = f"{SOLN}:SolutionIterator.{f.name}"
        for w in ast.walk(f):
            if not isinstance(w, ast.Subscript):
                continue
            idx = w.slice
            elts = idx.elts if isinstance(idx, ast.Tuple) else [idx]
            pos = [k for k, e in enumerate(elts) if norm_src(e) in ("self._index", "index", "i")]
            if not pos:
                continue
            n += 1
            if pos[0] == 0 and len(elts) >= 1 and not any(isinstance(e, ast.Constant) and e.value is Ellipsis for e in elts[:pos[0]]):
                rep.ok("C20.R10", C, f"`{norm_src(w)[:60]}` selects the record along the leading axis")
                continue
            # selection along another axis: find the guarding condition (IfExp test or enclosing if)
            cond = None
            par = getattr(w, "_parent", None)
            child = w
            while par is not None and par is not f:
                if isinstance(par, ast.IfExp) and child is par.body:
                    cond = par.test
                    break
                if isinstance(par, ast.If) and any(child is x for x in par.body):
                    cond = par.test
                    break
                child, par = par, getattr(par, "_parent", None)
            cs = norm_src(cond) if cond is not None else ""
            empty_only = cond is not None and isinstance(cond, ast.Compare) and len(cond.ops) == 1 and isinstance(cond.ops[0], ast.Eq) \
                and norm_src(cond.comparators[0]) == "0" and "shape[0]" in norm_src(cond.left)
            if empty_only:
                rep.ok("C20.R10", C, f"`{norm_src(w)[:50]}` (other axis) only under `{cs[:50]}`: unreachable for a field with one row per instant")
            else:
                rep.bad("C20.R10", C, w, f"`{norm_src(w)[:60]}` selects the record along another axis than the leading one" + (f" under `{cs[:70]}`" if cs else "") +
                        ": this holds for a properly stored (instants x width) field whose width equals the number of instants, whose records then are columns (time histories of "
                        "one component) instead of rows", f"{SOLN}:{w.lineno}")
    if n < 1:
        raise AnalysisError(f"{SOLN}: the iterator's element selection was not found")


def robust_step_count(ctx):
    """C20 quantifies over final times that are multiples of the step in decimal but not in binary.  numpy documents that the length of
    np.arange(start, stop, step) with a non-integer step is ceil((stop - start) / step) evaluated in floating point, which lands on
    either side of such a multiple (0.3 / 0.1 < 3, 1.1 / 0.1 > 11): a grid or step count taken from it ends one step late for some of
    these inputs.  Rule: in cardillo/solver no np.arange with the step dt (and no ceil of a bare quotient by dt) determines a time
    grid; the shared helper rounds `quotient - tolerance` and builds the grid from an INTEGER arange."""
    rep = ctx.rep
    n = 0
    for rel, mod in sorted(ctx.repo.modules.items()):
        if not rel.startswith("cardillo/solver/"):
            continue
        for q, fn in mod.defs().items():
            if not isinstance(fn, ast.FunctionDef):
                continue
            C = f"{rel}:{q}"
            for w in walk_no_nested(fn):
                if not isinstance(w, ast.Call):
                    continue
                last = (dotted(w.func) or "").split(".")[-1]
                if last == "arange" and len(w.args) == 3 and any(isinstance(x, (ast.Name, ast.Attribute)) and (dotted(x) or "").split(".")[-1] == "dt" for x in ast.walk(w.args[2])):
                    n += 1
                    rep.bad("C20.R9", C, w, f"`{norm_src(w)}`: the length of a float-step np.arange is ceil((stop - start) / step) in floating point; for final times that are a decimal "
                            "multiple of the step the quotient can round across the integer (t1 = 0.2 or 1.1 with dt = 0.1), and the grid then ends one step after the first point "
                            "at or after t1", f"{rel}:{w.lineno}")
                if last == "ceil" and w.args:
                    a = w.args[0]
                    quot = [b for b in ast.walk(a) if isinstance(b, ast.BinOp) and isinstance(b.op, ast.Div)
                            and any((dotted(x) or "").split(".")[-1] == "dt" for x in ast.walk(b.right) if isinstance(x, (ast.Name, ast.Attribute)))]
                    if not quot:
                        continue
                    n += 1
                    tol = isinstance(a, ast.BinOp) and isinstance(a.op, ast.Sub) and isinstance(a.right, ast.Constant) and isinstance(a.right.value, float) and 0 < a.right.value < 1e-3
                    if tol:
                        rep.ok("C20.R9", C, f"{norm_src(w)}: quotient rounded up after subtracting the tolerance {a.right.value}")
                    else:
                        rep.bad("C20.R9", C, w, f"`{norm_src(w)}` rounds a bare floating-point quotient by the step up: for a final time that is a decimal multiple of the step the "
                                "quotient can exceed the integer by one unit in the last place, which adds a step", f"{rel}:{w.lineno}")
    # the helper builds the grid from an integer arange
    tg = ctx.repo.maybe("cardillo/solver/_base.py", "time_grid")
    if tg is None:
        raise AnalysisError("cardillo/solver/_base.py:time_grid vanished")
    ret = [r.value for r in ast.walk(tg) if isinstance(r, ast.Return) and r.value is not None]
    ar = [w for r in ret for w in ast.walk(r) if isinstance(w, ast.Call) and (dotted(w.func) or "").split(".")[-1] == "arange"]
    n += 1
    if ret and ar and all(len(w.args) == 1 for w in ar) and "t0" in norm_src(ret[0]) and "dt" in norm_src(ret[0]):
        rep.ok("C20.R9", "cardillo/solver/_base.py:time_grid", f"grid = {norm_src(ret[0])}: integer arange scaled by dt, shifted by t0")
    else:
        rep.bad("C20.R9", "cardillo/solver/_base.py:time_grid", ret[0] if ret else tg.name, "the grid is not t0 + dt * np.arange(n + 1) with an integer count", f"cardillo/solver/_base.py:{tg.lineno}")
    for rel, cname in TIME_SOLVERS + [("cardillo/solver/scipy_ivp.py", "ScipyIVP"), ("cardillo/solver/scipy_dae.py", "ScipyDAE")]:
        cls = ctx.repo.get(rel, cname)
        uses = [w for w in ast.walk(cls) if isinstance(w, ast.Call) and (dotted(w.func) or "").split(".")[-1] == "time_grid"]
        n += 1
        if uses:
            rep.ok("C20.R9", f"{rel}:{cname}", f"time grid / step count from {norm_src(uses[0])}")
        else:
            rep.bad("C20.R9", f"{rel}:{cname}", cname, "the solver does not take its time grid from the shared helper time_grid(t0, t1, dt)", f"{rel}:{cls.lineno}")


def newton_row_counts(ctx):
    """Row count of every keyword of Solution(...) in Newton.solve (also through a helper method): slices [:n] -> n, np.zeros((m, k))
    -> m, the whole load_steps array -> self.nt; after the complete loop i + 1 = self.nt (C23.R6 decides the loop bounds)."""
    from . import c23
    rep = ctx.rep
    ST = c23.ST
    fn = ctx.repo.get(ST, "Newton.solve")
    C = f"{ST}:Newton.solve"
    loops = [n for n in ast.walk(fn) if isinstance(n, ast.For) and any(isinstance(c, ast.Call) and dotted(c.func) == "fsolve" for c in ast.walk(n))]
    if len(loops) != 1 or not isinstance(loops[0].target, ast.Name):
        raise AnalysisError(f"{C}: load-step loop not found")
    loop = loops[0]
    var = loop.target.id
    for call, in_loop, subst, where in c23.solution_sites(ctx, fn, loop):
        counts = {}
        for k in call.keywords:
            if k.arg in (None, "system", "solver_summary"):
                continue
            v = k.value
            rc = None
            if isinstance(v, ast.Subscript):
                sl = v.slice.elts[0] if isinstance(v.slice, ast.Tuple) else v.slice
                if isinstance(sl, ast.Slice) and sl.lower is None and sl.upper is not None:
                    rc = subst(norm_src(sl.upper))
            elif isinstance(v, ast.Call) and (dotted(v.func) or "").split(".")[-1] in ("zeros", "ones", "empty") and v.args and isinstance(v.args[0], ast.Tuple):
                rc = subst(norm_src(v.args[0].elts[0]))
            elif norm_src(v) == "self.load_steps":
                rc = "self.nt"
            if rc is None:
                rc = "?" + norm_src(v)[:40]
            rc = {"len(self.load_steps)": "self.nt"}.get(rc, rc)
            if not in_loop and rc == f"{var} + 1":
                rc = "self.nt"
            counts[k.arg] = rc
        vals = sorted(set(counts.values()))
        label = f"{'early' if in_loop else 'final'} return{where}"
        if len(vals) == 1 and not vals[0].startswith("?"):
            rep.ok("C20.R8", C, f"{label}: every field has {vals[0]} rows ({', '.join(sorted(counts))})")
        elif any(x.startswith("?") for x in vals):
            rep.ok("C20.R8", C, f"{label}: row count of a field not readable ({counts}) (no verdict)", verdict="unknown", trivial=True)
        else:
            major = max(vals, key=lambda x: sum(1 for y in counts.values() if y == x))
            odd = {k: v for k, v in counts.items() if v != major}
            rep.bad("C20.R8", C, call, f"{label}: field(s) {sorted(odd)} have {sorted(set(odd.values()))} rows but the others have {major}: the returned fields do not have one row per "
                    "returned load step", f"{ST}:{call.lineno}")


def run(ctx):
    rep = ctx.rep
    rep.rule("C20.R1", "output lists are appended in lockstep, once per step", 30)
    rep.rule("C20.R2", "lists start with one element; time starts at the initial time", 30)
    rep.rule("C20.R3", "grid / loop pairing", 4)
    rep.rule("C20.R4", "Solution fields are array expressions of the row lists", 40)
    rep.rule("C20.R5", "ScipyIVP / ScipyDAE field shapes", 8)
    rep.rule("C20.R6", "the step loop's iterable is a function of the initial time, the final time and the step", 4)
    rep.rule("C20.R12", "save_solution / load_solution open the file name they are given (possibly with a suffix APPENDED): no part of the name is replaced or cut (Path.with_suffix, splitext, .stem map `run_dt0.01` and `run_dt0.02` to one file)", 2)
    file_name_injective(ctx)
    rep.rule("C20.R11", "saving and loading go to the file on every call (no memoisation by file name)", 2)
    io_not_memoised(ctx)
    rep.rule("C20.R13", "Solution.__iter__ hands out a NEW cursor on every call (constructor call / generator), never an iterator object memoised on the solution: overlapping passes are independent", 1)
    fresh_iterator_per_pass(ctx)
    rep.rule("C20.R10", "the solution iterator selects each record along the leading (instant) axis", 1)
    iterator_rows(ctx)
    rep.rule("C20.R9", "the number of steps is rounded with a tolerance: no float-step np.arange / bare ceil of a float quotient decides where a time grid ends", 7)
    robust_step_count(ctx)
    rep.rule("C20.R8", "static Newton: all fields of a returned Solution have the same number of rows (early, truncated return and final return)", 1)
    newton_row_counts(ctx)
    rep.rule("C20.R7", "row k of every stored field still is what was stored at instant k (K11 may-alias analysis)", 8)
    from .. import alias
    S_ = "cardillo/solver/"
    alias.report(rep, "C20.R7", ctx.repo, [(S_ + "rattle.py", "Rattle"), (S_ + "backward_euler.py", "BackwardEuler"), (S_ + "moreau.py", "Moreau"),
                                           (S_ + "dual_stormer_verlet.py", "DualStormerVerlet"), (S_ + "statics.py", "Riks"),
                                           (S_ + "statics.py", "Newton"), (S_ + "scipy_ivp.py", "ScipyIVP"), (S_ + "scipy_dae.py", "ScipyDAE")])
    r6_step_count(ctx)
    for rel, q, stepq in SOLVERS:
        fn = ctx.repo.get(rel, q)
        lists = _solution_lists(fn)
        C = f"{rel}:{q}"
        if len(lists) < 4:
            raise AnalysisError(f"{C}: fewer than 4 output lists recognised")
        body_fn = ctx.repo.get(rel, stepq) if stepq else fn
        Cb = f"{rel}:{stepq or q}"
        cfg = CFG(body_fn)
        # ---- R2 initialisation
        for x in sorted(lists):
            inits = [n for n in ast.walk(fn) if isinstance(n, ast.Assign) and any(norm_src(t) == x for t in n.targets)]
            if len(inits) == 1 and isinstance(inits[0].value, ast.List) and len(inits[0].value.elts) == 1:
                rep.ok("C20.R2", C, f"{x} = [{norm_src(inits[0].value.elts[0])}]")
            else:
                rep.bad("C20.R2", C, inits[0] if inits else x, f"output list `{x}` is not created with exactly one initial row", f"{rel}:{inits[0].lineno if inits else fn.lineno}")
        # ---- R1 lockstep
        loop = None
        if stepq is None:
            for n in walk_no_nested(fn):
                if isinstance(n, (ast.For, ast.While)) and "max_iter" not in norm_src(n.iter if isinstance(n, ast.For) else n.test):
                    loop = n
                    break
            if loop is None:
                raise AnalysisError(f"{C}: time loop not found")
            hdr = cfg.node_of(loop)
        else:
            hdr = None
        apps = {}
        for x in lists:
            nodes = [n for n in cfg.nodes if _append_to(n, x)]
            apps[x] = nodes
        missing = [x for x, ns in apps.items() if len(ns) != 1]
        for x in missing:
            rep.bad("C20.R1", Cb, f"{x}.append(...)", f"output list `{x}` has {len(apps[x])} append statements per step (exactly one is required for one row per instant)",
                    f"{rel}:{(apps[x][0].lineno if apps[x] else body_fn.lineno)}")
        single = {x: ns[0] for x, ns in apps.items() if len(ns) == 1}
        if single:
            order = sorted(single.values(), key=lambda n: n.lineno)
            first, last = order[0], order[-1]
            for x, n in sorted(single.items(), key=lambda kv: kv[1].lineno):
                okd = (n is first) or cfg.dominates(first, n)
                # leaving the step between `first` and n without passing n
                targets = [cfg.exit] + ([hdr] if hdr is not None else [])
                leak = None
                if n is not first:
                    for tgt in targets:
                        p = cfg.find_path([s for s, _ in first.succ], tgt, blocked=lambda m, n=n: m is n)
                        if p is not None:
                            leak = p
                            break
                # and n cannot be skipped before first either: first must be reached only ... (n after first by dominance)
                if okd and leak is None:
                    rep.ok("C20.R1", Cb, f"{norm_src(n.ast)} in lockstep with {norm_src(first.ast)}")
                else:
                    rep.bad("C20.R1", Cb, n.ast, f"`{x}` can get out of step with `{norm_src(first.ast.value.func.value)}`: a path appends one without the other "
                            f"(fields would have different numbers of rows)", f"{rel}:{n.lineno}")
            # the whole chain sits inside the time loop / step function and is executed at most once per iteration
            if hdr is not None:
                inside = all(_inside(loop, n.ast) for n in order)
                inner = any(_in_inner_loop(loop, n.ast) for n in order)
                if not inside or inner:
                    rep.bad("C20.R1", Cb, first.ast, "row appends are not executed exactly once per time step (outside the time loop or inside an inner loop)", f"{rel}:{first.lineno}")
        # ---- R4
        for n in ast.walk(fn):
            if isinstance(n, ast.Call) and (dotted(n.func) or "").split(".")[-1] == "Solution":
                for k in n.keywords:
                    if k.arg in ("system", "solver_summary"):
                        continue
                    s = norm_src(k.value)
                    okk = any(isinstance(c, ast.Call) and dotted(c.func) in ("np.array", "np.asarray") for c in ast.walk(k.value))
                    if okk:
                        rep.ok("C20.R4", C, f"{k.arg}={s[:60]}")
                    else:
                        rep.bad("C20.R4", C, k.value, f"field `{k.arg}` is not an array built from a per-step row list", f"{rel}:{k.value.lineno}")
    # ---- R2/R3 time
    for rel, q, tname, t0s in (("cardillo/solver/rattle.py", "Rattle.solve", "t", ("self.tn",)), ("cardillo/solver/backward_euler.py", "BackwardEuler.solve", "t", ("self.tn",)),
                               ("cardillo/solver/dual_stormer_verlet.py", "DualStormerVerlet.solve", "self.sol_t", ("self.tn",))):
        fn = ctx.repo.get(rel, q)
        C = f"{rel}:{q}"
        init = [n for n in ast.walk(fn) if isinstance(n, ast.Assign) and any(norm_src(t) == tname for t in n.targets)]
        if init and isinstance(init[0].value, ast.List) and len(init[0].value.elts) == 1 and norm_src(init[0].value.elts[0]) in t0s:
            rep.ok("C20.R2", C, f"{tname} = [{norm_src(init[0].value.elts[0])}] (initial time)")
        else:
            rep.bad("C20.R2", C, init[0] if init else tname, "the time list does not start with the initial time self.tn", f"{rel}:{init[0].lineno if init else fn.lineno}")
        cls = ctx.repo.get(rel, q.split(".")[0])
        body = ctx.repo.get(rel, "DualStormerVerlet._step") if "Dual" in q else fn
        ok_t = any(isinstance(n, ast.Assign) and norm_src(n) in ("tn1 = self.tn + self.dt", "tn1 = self.tn + dt") for n in ast.walk(body)) and \
            any(isinstance(n, ast.Expr) and norm_src(n) == f"{tname}.append(tn1)" for n in ast.walk(body))
        upd = any(isinstance(n, ast.Assign) and norm_src(n) == "self.tn = tn1" for n in ast.walk(body))
        if ok_t and upd:
            rep.ok("C20.R3", C, f"{tname}.append(tn1) with tn1 = self.tn + dt and self.tn = tn1")
        else:
            rep.bad("C20.R3", C, f"{tname}.append(tn1)", "the stored time does not advance by dt per step (tn1 = self.tn + dt; append; self.tn = tn1)", f"{rel}:{fn.lineno}")
        init_tn = any(isinstance(n, ast.Assign) and norm_src(n) == "self.tn = system.t0" for n in ast.walk(cls))
        if init_tn:
            rep.ok("C20.R2", C, "self.tn = system.t0")
        else:
            rep.bad("C20.R2", C, "self.tn = system.t0", "the solver's current time is not initialised with system.t0", f"{rel}:{cls.lineno}")
    mo = ctx.repo.get("cardillo/solver/moreau.py", "Moreau")
    src = ast.unparse(mo)
    C = "cardillo/solver/moreau.py:Moreau"
    grid = [n for n in ast.walk(mo) if isinstance(n, ast.Assign) and any(norm_src(t) == "self.t" for t in n.targets)]
    loops = [n for n in ast.walk(mo) if isinstance(n, ast.For) and "self.t[1:]" in (norm_src(n.iter) + " " + " ".join(norm_src(v) for v in _loop_iter_defs(mo, n)))]
    tfield = "t=np.array(self.t)" in src
    if grid and isinstance(grid[0].value, ast.Call) and norm_src(grid[0].value).startswith(("np.arange(t0,", "time_grid(t0,")) and loops and tfield:
        rep.ok("C20.R3", C, f"grid {norm_src(grid[0].value)} ; loop over self.t[1:] ; t=np.array(self.t)")
    else:
        rep.bad("C20.R3", C, grid[0] if grid else "self.t = np.arange(t0, ...)", "Moreau's pre-computed grid is not paired with a loop over self.t[1:] and t=np.array(self.t)",
                f"cardillo/solver/moreau.py:{grid[0].lineno if grid else mo.lineno}")
    # ---- R5
    ivp = ctx.repo.get("cardillo/solver/scipy_ivp.py", "ScipyIVP.solve")
    C = "cardillo/solver/scipy_ivp.py:ScipyIVP.solve"
    nt = any(isinstance(n, ast.Assign) and norm_src(n) == "nt = len(t)" for n in ast.walk(ivp))
    if nt:
        rep.ok("C20.R5", C, "nt = len(t)")
    else:
        rep.bad("C20.R5", C, "nt = len(t)", "number of rows of the post-processed fields is not len(t)", f"cardillo/solver/scipy_ivp.py:{ivp.lineno}")
    for n in ast.walk(ivp):
        if isinstance(n, ast.Assign) and isinstance(n.value, ast.Call) and dotted(n.value.func) == "np.zeros" and isinstance(n.targets[0], ast.Name):
            a0 = n.value.args[0]
            if isinstance(a0, ast.Tuple) and norm_src(a0.elts[0]) == "nt":
                rep.ok("C20.R5", C, norm_src(n))
            else:
                rep.bad("C20.R5", C, n, f"field `{n.targets[0].id}` is not allocated with nt rows", f"cardillo/solver/scipy_ivp.py:{n.lineno}")
    lp = [n for n in ast.walk(ivp) if isinstance(n, ast.For) and norm_src(n.iter) == "enumerate(zip(t, q, u))"]
    if lp and all(norm_src(t).endswith("[i]") for s in lp[0].body for t in (s.targets[0].elts if isinstance(s, ast.Assign) and isinstance(s.targets[0], ast.Tuple) else [])):
        rep.ok("C20.R5", C, "row i of every post-processed field is filled in a loop over enumerate(zip(t, q, u))")
    else:
        rep.bad("C20.R5", C, lp[0] if lp else "for i, (ti, qi, ui) in enumerate(zip(t, q, u))", "post-processed rows are not filled one per time instant", f"cardillo/solver/scipy_ivp.py:{ivp.lineno}")
    dae = ctx.repo.get("cardillo/solver/scipy_dae.py", "ScipyDAE.solve")
    C = "cardillo/solver/scipy_dae.py:ScipyDAE.solve"
    for n in ast.walk(dae):
        if isinstance(n, ast.Call) and (dotted(n.func) or "").split(".")[-1] == "Solution":
            for k in n.keywords:
                if k.arg in ("system", "solver_summary", "t"):
                    continue
                if norm_src(k.value).endswith(".T"):
                    rep.ok("C20.R5", C, f"{k.arg}={norm_src(k.value)}")
                else:
                    rep.bad("C20.R5", C, k.value, f"field `{k.arg}` of the (ny x nt) integrator output is not transposed to one row per instant", f"cardillo/solver/scipy_dae.py:{k.value.lineno}")


def _loop_iter_defs(cls, loop):
    out = []
    if isinstance(loop.iter, ast.Name):
        for n in ast.walk(cls):
            if isinstance(n, ast.Assign) and any(isinstance(t, ast.Name) and t.id == loop.iter.id for t in n.targets):
                out.append(n.value)
    return out


def _inside(loop, node):
    p = node
    while p is not None:
        if p is loop:
            return True
        p = getattr(p, "_parent", None)
    return False


def _in_inner_loop(loop, node):
    p = getattr(node, "_parent", None)
    while p is not None and p is not loop:
        if isinstance(p, (ast.For, ast.While)):
            return True
        p = getattr(p, "_parent", None)
    return False


RT, BE, MO = "cardillo/solver/rattle.py", "cardillo/solver/backward_euler.py", "cardillo/solver/moreau.py"
MUTANTS = [
    dict(id="c20-m1", canary=True, what="Rattle: la_c only stored when compliance exists", file=RT,
         old="            la_c.append(0.5 * (la_c1 + self.la_c2))\n", new="            if self.nla_c > 0:\n                la_c.append(0.5 * (la_c1 + self.la_c2))\n", expect="C20.R1"),
    dict(id="c20-m2", canary=True, what="BackwardEuler: truncated return between the appends", file=BE,
         old="            q.append(qn1)\n            u.append(un1)\n            q_dot.append(dqn1 / self.dt)", new="            q.append(qn1)\n            if not np.all(np.isfinite(un1)):\n                return make_solution()\n            u.append(un1)\n            q_dot.append(dqn1 / self.dt)", expect="C20.R1"),
    dict(id="c20-m3", what="Moreau loops over the whole grid", file=MO,
         old="        pbar = tqdm(self.t[1:], leave=True, mininterval=0.5, miniters=nfrac)", new="        pbar = tqdm(self.t, leave=True, mininterval=0.5, miniters=nfrac)", expect="C20.R3"),
    dict(id="c20-m4", what="Rattle: time list starts empty", file=RT, old="        t = [self.tn]\n", new="        t = []\n", expect="C20.R2"),
    dict(id="c20-m5", what="BackwardEuler: P_g passed as list of arrays scaled later (not an array)", file=BE,
         old="                P_g=np.array(P_g),", new="                P_g=P_g,", expect="C20.R4"),
    dict(id="c20-m6", what="ScipyDAE: la_c not transposed", file="cardillo/solver/scipy_dae.py", old="            la_c=la_c.T,", new="            la_c=la_c,", expect="C20.R5"),
    dict(id="c20-m7", what="Rattle stores two velocity rows per step", file=RT,
         old="            u.append(un1)\n            la_c.append(", new="            u.append(un12)\n            u.append(un1)\n            la_c.append(", expect="C20.R1"),
    dict(id="c20-m8", what="DualStormerVerlet: time not advanced", file="cardillo/solver/dual_stormer_verlet.py",
         old="        self.tn = tn1\n        self.qn = qn1.copy()", new="        self.qn = qn1.copy()", expect="C20.R3"),
]
MUTANTS += [
    dict(id="c20-r6-seed", canary=True, what="[seeded by sub-agent] Rattle: step count int(ceil(t1 / dt)) forgets the initial time", file=RT,
         old="        pbar = tqdm(time_grid(self.t0, self.t1, self.dt)[:-1])", new="        n_steps = int(np.ceil(self.t1 / self.dt))\n        pbar = tqdm(range(n_steps))", expect="C20.R6"),
    dict(id="c20-r6-2", what="BackwardEuler: grid starts at 0 instead of t0", file="cardillo/solver/backward_euler.py",
         old="        pbar = tqdm(time_grid(self.t0, self.t1, self.dt)[:-1])", new="        pbar = tqdm(time_grid(0, self.t1, self.dt)[:-1])", expect="C20.R6"),
    dict(id="c20-r6-3", what="Moreau: pre-computed grid stops before t1", file="cardillo/solver/moreau.py",
         old="        self.t = time_grid(t0, self.t1, self.dt)", new="        self.t = time_grid(t0, self.t1, self.dt)[:-1]", expect=["C20.R6", "C20.R3"]),
    dict(id="c20-r6-4", what="DualStormerVerlet: one step too many", file="cardillo/solver/dual_stormer_verlet.py",
         old="        self.pbar = tqdm(time_grid(self.t0, self.t1, self.dt)[:-1])", new="        self.pbar = tqdm(time_grid(self.t0, self.t1, self.dt))", expect="C20.R6"),
    dict(id="c20-r9-orig", canary=True, what="Rattle counts its steps with a float-step np.arange (original defect: one step too many for t0 = 0.1, t1 = 0.4, dt = 0.1)", file=RT,
         old="        pbar = tqdm(time_grid(self.t0, self.t1, self.dt)[:-1])", new="        pbar = tqdm(np.arange(self.t0, self.t1, self.dt))", expect="C20.R9"),
    dict(id="c20-r9-2", what="Moreau's grid from np.arange(t0, t1 + dt, dt) (original defect: ends at 0.3 for t1 = 0.2, dt = 0.1)", file="cardillo/solver/moreau.py",
         old="        self.t = time_grid(t0, self.t1, self.dt)", new="        self.t = np.arange(t0, self.t1 + self.dt, self.dt)", expect="C20.R9"),
    dict(id="c20-r9-3", what="time_grid rounds the bare quotient", file="cardillo/solver/_base.py",
         old="    n_steps = max(1, int(np.ceil((t1 - t0) / dt - 1e-9)))", new="    n_steps = max(1, int(np.ceil((t1 - t0) / dt)))", expect="C20.R9"),
]
MUTANTS += [
    dict(id="c20-r8-seed", canary=True, what="[seeded by sub-agent] Newton: truncated return keeps the full-length velocity field", file="cardillo/solver/statics.py",
         old="                    u=np.zeros((i, self.nu)),", new="                    u=np.zeros((len(self.load_steps), self.nu)),", expect="C20.R8"),
]
NEUTRAL = [
    dict(id="c20-n-r9", what="time_grid written with a named tolerance", file="cardillo/solver/_base.py",
         old="    n_steps = max(1, int(np.ceil((t1 - t0) / dt - 1e-9)))", new="    quotient = (t1 - t0) / dt\n    n_steps = max(1, int(np.ceil(quotient - 1.0e-9)))"),
    dict(id="c20-n1", canary=True, what="Rattle: step count from the span (t1 - t0) / dt", file=RT,
         old="        pbar = tqdm(time_grid(self.t0, self.t1, self.dt)[:-1])", new="        n_steps = len(time_grid(self.t0, self.t1, self.dt)) - 1\n        pbar = tqdm(range(n_steps))"),
]
MUTANTS += [
    dict(id="c20-r10-seed", canary=True, what="[seeded by sub-agent] iterator slices along the last axis whenever that axis has as many entries as there are instants", file=SOLN,
         old="                                    if self._solution.__getattribute__(key).shape[0]\n                                    == 0\n",
         new="                                    if self._solution.__getattribute__(key).shape[-1]\n                                    == len(self._solution.t)\n", expect="C20.R10"),
]
MUTANTS += [
    dict(id="c20-r11-seed", canary=True, what="[seeded by sub-agent] load_solution memoised with lru_cache", file=SOLN,
         old="def load_solution(", new="from functools import lru_cache\n\n\n@lru_cache(maxsize=8)\ndef load_solution(", expect="C20.R11"),
]

MUTANTS += [
    dict(id="c20-r6-while", canary=True, what="[seeded by sub-agent] DualStormerVerlet steps `while self.tn < self.t1` (accumulated float time decides the number of steps)", file='cardillo/solver/dual_stormer_verlet.py',
         old='        self.pbar = tqdm(time_grid(self.t0, self.t1, self.dt)[:-1])\n        for _ in self.pbar:\n            self._step()\n', new='        self.pbar = tqdm(total=len(time_grid(self.tn, self.t1, self.dt)) - 1)\n        while self.tn < self.t1:\n            self._step()\n            self.pbar.update()\n        self.pbar.close()\n', expect="C20.R6"),
]

MUTANTS += [
    dict(id="c20-r12-seed", canary=True, what="[seeded by sub-agent] save_solution normalises the file name with Path(filename).with_suffix('.pkl') (replaces what follows the last dot)", file=SOLN,
         old='    with open(filename, mode="wb") as f:\n', new='    from pathlib import Path\n    with open(Path(filename).with_suffix(".pkl"), mode="wb") as f:\n', expect="C20.R12"),
]

MUTANTS += [
    dict(id="c20-r13-seed", canary=True, what="[seeded by sub-agent] Solution.__iter__ creates its iterator once, keeps it on the solution and rewinds it on every call", file=SOLN,
         old="        return self.SolutionIterator(self)\n", new="        if getattr(self, '_iterator', None) is None:\n            self._iterator = self.SolutionIterator(self)\n        self._iterator._index = 0\n        return self._iterator\n", expect="C20.R13"),
]
NEUTRAL += [
    dict(id="c20-n-r13", canary=True, what="Solution.__iter__ binds the new iterator to a local first", file=SOLN,
         old="        return self.SolutionIterator(self)\n", new="        it = self.SolutionIterator(self)\n        return it\n"),
]
