"""C16  Consistent initial conditions solve the initial equations of motion.

Structural clauses decided (cardillo/solver/_base.py:consistent_initial_conditions):
 R1 EOM term set      the right-hand side contains every applied-force family System exposes (h, W_c la_c, W_tau la_tau),
                      the KKT matrix contains M, W_g, W_gamma, g_dot_u, gamma_u, the constraint rows zeta_g, zeta_gamma, and the
                      contact iteration adds W_N la_N + W_F la_F; the sibling ScipyIVP.eqm assembles the same families
 R2 rejection         on every path that computes accelerations the asserts on g, g_dot, g_ddot, gamma, gamma_dot, g_S, g_N and
                      g_N_dot are passed before the normal return; the only bypass is the explicit opt-out
 R3 evaluation point  every System evaluation uses (t0, q0[, u0]) after step_callback has normalised q0
 R4 prox template     the acceleration-level Signorini/Coulomb update has the template of sa/proxrule.py incl. stick/slip split
"""
from __future__ import annotations

import ast

from ..core import AnalysisError, dotted, norm_src
from ..cfg import CFG
from .. import termset, proxrule

EXPLANATION = ("Term-set extraction (resolution of locals to System calls) for the linear system of "
               "consistent_initial_conditions and comparison with the force inventory and with ScipyIVP.eqm; dominator "
               "check of the rejection asserts; normalisation of evaluation-point arguments; prox template matching.")
NOT_DECIDED = "accuracy of the linear solve; that Signorini/Coulomb hold numerically at the fixed point."
ASSUMPTIONS = ["applied-force inventory = {h, W_c la_c, W_tau la_tau} (families System exposes besides constraints/contacts)"]
BLIND_SPOTS = ["sign of a term in the right-hand side"]
SB = "cardillo/solver/_base.py"
IVP = "cardillo/solver/scipy_ivp.py"
APPLIED = [("h",), ("W_c", "la_c"), ("W_tau", "la_tau")]


def linked_law_needs_active_contact(ctx):
    """compute_I_F hands (i_N_local, i_F_local, reservoir) to the prox loops, which read `len(i_N) > 0` as "the reservoir is scaled by
    that normal force" and an EMPTY i_N as "constant reservoir, scale 1.0".  The local index of a linked law is a search of its
    global normal index in the active set and is empty when the contact is not active.  So the append of a linked law must be
    guarded by the membership test itself; a guard that another disjunct can satisfy (`not slice or ...`) lets an open contact
    through as a constant reservoir: it receives a friction force although its normal force is zero."""
    from ..model import guards_of
    rep = ctx.rep
    rel = "cardillo/solver/_base.py"
    fn = ctx.repo.get(rel, "compute_I_F")
    C = f"{rel}:compute_I_F"
    active = fn.args.args[0].arg
    apps = [n for n in ast.walk(fn) if isinstance(n, ast.Expr) and isinstance(n.value, ast.Call) and isinstance(n.value.func, ast.Attribute)
            and n.value.func.attr == "append" and n.value.args and isinstance(n.value.args[0], ast.Tuple) and len(n.value.args[0].elts) == 3]
    linked = [a for a in apps if isinstance(a.value.args[0].elts[0], ast.Name)]
    if not linked:
        raise AnalysisError(f"{C}: append of a linked friction law not found")
    for ap in linked:
        gs = guards_of(ap, fn)
        member = [t for (t, pol) in gs if pol and (" in " + active) in t and " or " not in t and not t.startswith("not ")]
        if member:
            rep.ok("C16.R7", C, f"linked friction law appended only under `{member[0]}`")
        else:
            weak = [t for (t, pol) in gs if (" in " + active) in t]
            rep.bad("C16.R7", C, ap, f"a friction law linked to a normal force is appended under `{weak[0] if weak else [t for t, p in gs]}`, which does not imply that its contact is in the "
                    f"active set `{active}`: for an open contact the searched local normal index is empty and the prox loop treats the law as a constant reservoir of size 1 "
                    "(friction force on an open contact)", f"{rel}:{ap.lineno}")
    # marker protocol (after fix F40): a law kept for an inactive contact carries None instead of an index; whoever can receive it
    # (a caller that passes `slice=` other than the literal True) must ask `is None` before `len(...)`
    markers = [a for a in apps if isinstance(a.value.args[0].elts[0], ast.Constant) and a.value.args[0].elts[0].value is None]
    if not markers:
        return
    for ap in markers:
        gs = guards_of(ap, fn)
        if any(not pol and (" in " + active) in t for (t, pol) in gs) or any(pol and ("not in " + active) in t for (t, pol) in gs):
            rep.ok("C16.R7", C, "a law of an INACTIVE contact is kept with the marker None (zero normal force), never with an empty index")
        else:
            rep.bad("C16.R7", C, ap, "the marker None (inactive normal contact) is appended on a path that does not exclude an active contact", f"{rel}:{ap.lineno}")
    for q, f in ctx.repo.module(rel).defs().items():
        if not isinstance(f, ast.FunctionDef) or f is fn:
            continue
        calls = [c for c in ast.walk(f) if isinstance(c, ast.Call) and (dotted(c.func) or "").split(".")[-1] == "compute_I_F"]
        unsliced = [c for c in calls if any(k.arg == "slice" and not (isinstance(k.value, ast.Constant) and k.value.value is True) for k in c.keywords) or len(c.args) > 2]
        if not unsliced:
            continue
        Cq = f"{rel}:{q}"
        loops = [n for n in ast.walk(f) if isinstance(n, ast.For) and isinstance(n.target, ast.Tuple) and len(n.target.elts) == 3 and isinstance(n.target.elts[0], ast.Name)]
        for lp in loops:
            v = lp.target.elts[0].id
            lens = [n for n in ast.walk(lp) if isinstance(n, ast.Call) and dotted(n.func) == "len" and n.args and isinstance(n.args[0], ast.Name) and n.args[0].id == v]
            if not lens:
                continue
            for ln in lens:
                gs = guards_of(ln, f)
                # the len() test sits in the else / elif branch of `v is None`, or under `v is not None`
                from ..model import parent
                ok_ = any((not pol and t == f"{v} is None") or (pol and t == f"{v} is not None") for (t, pol) in gs)
                p_ = parent(ln)
                while p_ is not None and not isinstance(p_, ast.If):
                    p_ = parent(p_)
                if not ok_ and p_ is not None:
                    pp = parent(p_)
                    if isinstance(pp, ast.If) and p_ in pp.orelse and norm_src(pp.test) == f"{v} is None":
                        ok_ = True
                if ok_:
                    rep.ok("C16.R7", Cq, f"`len({v})` is asked only after `{v} is None` (inactive contact: zero reservoir) has been excluded")
                else:
                    rep.bad("C16.R7", Cq, ln, f"this routine calls compute_I_F without slicing, so `{v}` can be the marker None of an inactive contact, but `len({v})` is evaluated without "
                            f"excluding `{v} is None` first", f"{rel}:{ln.lineno}")


def threshold_scale(ctx, rule="C16.R12"):
    """The loop stops when the change `x1[:nu] - x0[:nu]` of the accelerations falls below a threshold and then returns the PREVIOUS iterate
    of (u_dot, la_g, la_gamma) with the CURRENT contact forces.  With an absolute threshold the two agree to 1e-6.  A relative part scaled by
    entries of x that are not accelerations (la_g: a clamp's reaction moment of 2.5e7) lifts the threshold above the whole effect of the
    contact forces: the loop stops after one pass and returns the contact-free accelerations next to non-zero contact forces."""
    rep = ctx.rep
    fn = ctx.repo.get(SB, "consistent_initial_conditions")
    C = f"{SB}:consistent_initial_conditions"
    loops = [n for n in ast.walk(fn) if isinstance(n, ast.For) and any(isinstance(c, ast.Call) and dotted(c.func) == "prox" for c in ast.walk(n))]
    if not loops:
        rep.ok(rule, C, "fixed-point loop not found (no verdict)", verdict="unknown", trivial=True)
        return
    loop = loops[0]
    binds = {}
    for w in ast.walk(fn):
        if isinstance(w, ast.Assign) and len(w.targets) == 1 and isinstance(w.targets[0], ast.Name):
            binds.setdefault(w.targets[0].id, []).append(w.value)
    diffs = [w for w in ast.walk(loop) if isinstance(w, ast.Assign) and len(w.targets) == 1 and isinstance(w.targets[0], ast.Name) and w.targets[0].id.startswith("diff")
             and isinstance(w.value, ast.BinOp) and isinstance(w.value.op, ast.Sub)]
    if not diffs:
        rep.ok(rule, C, "no convergence difference `diff = a - b` in the loop (no verdict)", verdict="unknown", trivial=True)
        return
    d = diffs[0].value
    ops = {}
    for side in (d.left, d.right):
        if isinstance(side, ast.Subscript) and isinstance(side.value, ast.Name):
            ops[side.value.id] = norm_src(side.slice).replace(" ", "")
        elif isinstance(side, ast.Name):
            ops[side.id] = None
    cmps = [w for w in ast.walk(loop) if isinstance(w, ast.Compare) and len(w.ops) == 1 and isinstance(w.ops[0], (ast.Lt, ast.LtE)) and any(isinstance(x, ast.Name) and x.id.startswith("error") for x in ast.walk(w.left))]
    if not cmps:
        rep.ok(rule, C, "no `error < threshold` test in the loop (no verdict)", verdict="unknown", trivial=True)
        return
    thr = cmps[0].comparators[0]
    seen, work, bad = set(), [thr], None
    while work and bad is None:
        e = work.pop()
        par = {}
        for p_ in ast.walk(e):
            for c_ in ast.iter_child_nodes(p_):
                par[id(c_)] = p_
        for x in ast.walk(e):
            if isinstance(x, ast.Name) and x.id in ops:
                pa = par.get(id(x))
                sl = norm_src(pa.slice).replace(" ", "") if isinstance(pa, ast.Subscript) and pa.value is x else None
                if sl != ops[x.id]:
                    bad = (x, sl)
                    break
            elif isinstance(x, ast.Name) and x.id in binds and x.id not in seen and x.id not in ops:
                seen.add(x.id)
                work += binds[x.id]
    if bad:
        x, sl = bad
        rep.bad(rule, C, cmps[0], f"the threshold `{norm_src(thr)[:60]}` is scaled by `{x.id}{'[' + sl + ']' if sl else ''}` while the measured change is `{norm_src(d)[:50]}`: entries of another kind (constraint "
                "forces / moments of arbitrary magnitude) raise the threshold above the effect of the contact forces, the loop stops after its first pass and the contact-free accelerations are "
                "returned together with non-zero contact forces (equations of motion, Signorini and Coulomb violated, no assertion fires)", f"{SB}:{cmps[0].lineno}")
    else:
        rep.ok(rule, C, f"threshold `{norm_src(thr)[:60]}` involves only the tolerances and the measured entries")


def inactive_forces_zero(ctx, rule="C16.R11"):
    """u_dot0, la_g0 are solved with the forces of the ACTIVE contacts only (W_N[:, B_N] la_N1 + W_F[:, B_F] la_F1).  The returned full-length
    vectors satisfy the equations of motion and Signorini's law on acceleration level only if every other entry is zero.  That holds when the
    only whole-vector bindings of la_N0 / la_F0 are zero buffers and all other writes are element stores."""
    rep = ctx.rep
    fn = ctx.repo.get(SB, "consistent_initial_conditions")
    C = f"{SB}:consistent_initial_conditions"
    rets = [r for r in ast.walk(fn) if isinstance(r, ast.Return) and isinstance(r.value, ast.Tuple)]
    names = set()
    for r in rets:
        for e in r.value.elts:
            if isinstance(e, ast.Name) and e.id in ("la_N0", "la_F0"):
                names.add(e.id)
    if len(names) < 2:
        rep.ok(rule, C, "la_N0 / la_F0 are not returned by name (no verdict)", verdict="unknown", trivial=True)
        return
    for nm in sorted(names):
        binds = [w for w in ast.walk(fn) if isinstance(w, ast.Assign) and any(isinstance(t, ast.Name) and t.id == nm for t in w.targets)]
        binds += [w for w in ast.walk(fn) if isinstance(w, ast.Assign) and any(isinstance(t, ast.Tuple) and any(isinstance(x, ast.Name) and x.id == nm for x in t.elts) for t in w.targets)]
        bad = [b for b in binds if not (isinstance(b.value, ast.Call) and (dotted(b.value.func) or "").split(".")[-1] in ("zeros", "zeros_like"))]
        if bad:
            rep.bad(rule, C, bad[0], f"`{norm_src(bad[0])[:80]}`: the returned `{nm}` does not start as a zero buffer, so the entries of contacts outside the active set keep whatever that "
                    "source holds (e.g. the forces of a previous assembly) while u_dot0 / la_g0 are solved without them: the returned tuple violates the equations of motion and puts a force "
                    "on an open contact", f"{SB}:{bad[0].lineno}")
        elif binds:
            rep.ok(rule, C, f"`{nm}` starts as `{norm_src(binds[0].value)}`; all other writes are element stores on the active sets")
        else:
            rep.ok(rule, C, f"no whole-vector binding of `{nm}` found (no verdict)", verdict="unknown", trivial=True)


def rejection_falsifiable(ctx, fn, C):
    """`assert all(g_N >= 0 or A_N)` rejects a penetrating state only if A_N ("the contact is closed") is FALSE for g_N clearly below zero,
    i.e. if A_N is a two-sided closeness test (np.isclose(g_N, 0), abs(g_N) <= tol).  A one-sided `g_N <= tol` contains every penetrating
    state, the assertion can never fail, and a penetrating or approaching contact is treated as a persistent one (la_N0 = weight, u_dot0 = 0).
    For each assert of the form  X >= 0  or  S : the set S must not be implied by X < 0."""
    rep = ctx.rep
    local = {}
    for n in ast.walk(fn):
        if isinstance(n, ast.Assign) and len(n.targets) == 1 and isinstance(n.targets[0], ast.Name):
            local.setdefault(n.targets[0].id, []).append(n)
    n_ = 0
    for a in [x for x in ast.walk(fn) if isinstance(x, ast.Assert)]:
        lo = [w for w in ast.walk(a.test) if isinstance(w, ast.Call) and (dotted(w.func) or "").split(".")[-1] == "logical_or" and len(w.args) == 2]
        for call in lo:
            ge, S = call.args
            if not (isinstance(ge, ast.Compare) and len(ge.ops) == 1 and isinstance(ge.ops[0], (ast.GtE, ast.Gt)) and isinstance(S, ast.Name)):
                continue
            n_ += 1
            X = ge.left
            xnames = {w.id for w in ast.walk(X) if isinstance(w, ast.Name)}
            # definition of S before the assert (last one textually before it)
            defs = [d for d in local.get(S.id, []) if d.lineno < a.lineno]
            if not defs:
                rep.ok("C16.R10", C, f"`{norm_src(call)[:60]}`: definition of {S.id} not found (no verdict)", verdict="unknown", trivial=True)
                continue
            d = defs[-1].value
            # factors of a product A * B: the quantity's own closeness factor is the one mentioning a name of X that is not another set
            factors = []
            def split(e):
                if isinstance(e, ast.BinOp) and isinstance(e.op, (ast.Mult, ast.BitAnd)):
                    split(e.left); split(e.right)
                else:
                    factors.append(e)
            split(d)
            own = [f for f in factors if ({w.id for w in ast.walk(f) if isinstance(w, ast.Name)} & (xnames - set(local.get(S.id) and [S.id] or [])))
                   and not isinstance(f, ast.Name)]
            own = [f for f in own if any(isinstance(w, ast.Name) and w.id in xnames and w.id not in ("np",) and not w.id.startswith(("A_", "B_")) for w in ast.walk(f))]
            verdict = None
            for f in own:
                one_sided = isinstance(f, ast.Compare) and len(f.ops) == 1 and isinstance(f.ops[0], (ast.Lt, ast.LtE)) \
                    and not any(isinstance(w, ast.Call) and (dotted(w.func) or "").split(".")[-1] in ("abs", "absolute", "fabs") for w in ast.walk(f.left))
                two_sided = any(isinstance(w, ast.Call) and (dotted(w.func) or "").split(".")[-1] in ("isclose", "abs", "absolute", "fabs") for w in ast.walk(f))
                if one_sided:
                    verdict = ("bad", f)
                elif two_sided and verdict is None:
                    verdict = ("ok", f)
            if verdict is None:
                rep.ok("C16.R10", C, f"`{norm_src(call)[:60]}`: form of {S.id} = `{norm_src(d)[:50]}` not recognised (no verdict)", verdict="unknown", trivial=True)
            elif verdict[0] == "ok":
                rep.ok("C16.R10", C, f"`{norm_src(call)[:60]}` can fail: {S.id} tests `{norm_src(verdict[1])[:50]}` two-sidedly")
            else:
                rep.bad("C16.R10", C, defs[-1], f"`{S.id} = {norm_src(d)}` is one-sided: it holds for every `{norm_src(X)}` below zero, so `{norm_src(call)}` is always true and the assertion "
                        "cannot reject a penetrating / approaching contact (it is then treated as a persistent contact with la_N0 = weight)", f"{SB}:{defs[-1].lineno}")
    if n_ < 2:
        # whether the rejections exist at all is C16.R2's question (with its own floor); nothing to judge here
        rep.ok("C16.R10", C, f"only {n_} rejection assert(s) of the form logical_or(X >= 0, set) found (no verdict; C16.R2 decides their presence)", verdict="unknown", trivial=True)
        rep.ok("C16.R10", C, "see C16.R2", verdict="unknown", trivial=True)


def fixed_point_gate(ctx, fn, C):
    """The contact fixed point solves for the forces of the active normal contacts AND of the active friction laws; the latter
    include laws with a constant force reservoir (friction_laws entry with an empty normal index), which are active without
    any closed normal contact.  The condition that guards the loop has to hold whenever ANY index set whose forces the loop
    writes is non-empty, otherwise those forces stay zero and Coulomb's law is violated at t0."""
    from ..model import guards_of, parent
    rep = ctx.rep
    loops = [n for n in ast.walk(fn) if isinstance(n, ast.For) and any(isinstance(c, ast.Call) and dotted(c.func) == "prox" for c in ast.walk(n))]
    if not loops:
        raise AnalysisError(f"{C}: fixed-point loop (for ... prox(...)) not found")
    loop = loops[0]
    writes = {}
    for n in ast.walk(loop):
        if isinstance(n, ast.Assign) and len(n.targets) == 1 and isinstance(n.targets[0], ast.Subscript) and isinstance(n.targets[0].value, ast.Name) \
                and isinstance(n.targets[0].slice, ast.Name) and n.targets[0].value.id.startswith("la_"):
            writes[n.targets[0].slice.id] = n
    if len(writes) < 2:
        raise AnalysisError(f"{C}: write-back of the converged contact forces (la_N0[B_N] = ..., la_F0[B_F] = ...) not recognised")
    gs = []
    child, p = loop, parent(loop)
    while p is not None and p is not fn:
        if isinstance(p, ast.If) and any(child is x for x in p.body):
            gs.append(p)
        child, p = p, parent(p)
    for idx, w in sorted(writes.items()):
        blocking = []
        for g in gs:
            disj = g.test.values if isinstance(g.test, ast.BoolOp) and isinstance(g.test.op, ast.Or) else [g.test]
            if not any(idx in {x.id for x in ast.walk(d) if isinstance(x, ast.Name)} for d in disj) \
                    and any(k in {x.id for x in ast.walk(g.test) if isinstance(x, ast.Name)} for k in writes):
                blocking.append(g)
        if blocking:
            rep.bad("C16.R8", C, blocking[0].test, f"the contact fixed point, which computes `{norm_src(w.targets[0])}`, runs only under `{norm_src(blocking[0].test)}`, "
                    f"which can be false while `{idx}` is non-empty (friction laws with a constant force reservoir are active without a closed normal contact): "
                    "their initial friction forces stay zero", f"{SB}:{blocking[0].lineno}")
        else:
            rep.ok("C16.R8", C, f"fixed point runs whenever `{idx}` is non-empty" + (f" (guard `{norm_src(gs[0].test)}`)" if gs else " (unguarded)"))
    return loop


def one_solve(ctx, fn, C, loop):
    """u_dot0, la_g0, la_gamma0 are the unknowns of ONE linear system; once contact forces enter its right-hand side all of them
    change.  Every returned quantity that stems from the contact-free solve must therefore also be fed by the solves inside the
    fixed-point loop (else it is the stale contact-free value and M u_dot = h + W_g la_g + ... + W_N la_N + W_F la_F fails)."""
    from ..dataflow import ReachingDefs
    rep = ctx.rep
    cfg = CFG(fn)
    rd = ReachingDefs(cfg)
    rets = [n for n in cfg.nodes if n.kind == "stmt" and isinstance(n.ast, ast.Return) and isinstance(n.ast.value, ast.Tuple) and "u_dot0" in norm_src(n.ast)]
    if not rets:
        raise AnalysisError(f"{C}: final return not recognised")
    ret = rets[-1]
    def solves(node):
        return {c for c in ast.walk(node) if isinstance(c, ast.Call) and isinstance(c.func, ast.Attribute) and c.func.attr == "solve"} if node is not None else set()
    in_loop = {id(c) for c in solves(loop)}
    if not in_loop:
        raise AnalysisError(f"{C}: no linear solve inside the fixed-point loop")
    n_ok = 0
    for e in ret.ast.value.elts:
        if not isinstance(e, ast.Name):
            continue
        nodes, _ = rd.backward_slice(ret, names={e.id})
        sv = set()
        for n in nodes:
            if n is not ret and n.ast is not None and n.kind == "stmt":
                sv |= {id(c) for c in solves(n.ast)}
        if not sv - in_loop:
            continue        # not an unknown of the linear system
        if in_loop <= sv:
            n_ok += 1
            rep.ok("C16.R9", C, f"returned `{e.id}` is fed by the contact-free solve and by the solve of the fixed-point loop")
        else:
            rep.bad("C16.R9", C, ret.ast, f"returned `{e.id}` stems from the contact-free linear solve only: the solves of the contact fixed point never reach it, so with active "
                    "contacts it is stale and the returned set violates the equations of motion", f"{SB}:{ret.lineno}")


def run(ctx):
    rep = ctx.rep
    rep.rule("C16.R1", "EOM term set of the initial linear system", 8)
    rep.rule("C16.R2", "rejection asserts dominate the normal return", 8)
    rep.rule("C16.R3", "evaluation point (t0, q0, u0)", 15)
    rep.rule("C16.R4", "acceleration-level prox template", 3)
    rep.rule("C16.R12", "the threshold of the contact fixed point's convergence test is scaled, if at all, by the SAME entries whose change it measures (the accelerations), not by other unknowns of the linear system (constraint forces of any magnitude)", 1)
    threshold_scale(ctx)
    rep.rule("C16.R11", "the contact forces assembly returns are ZERO outside the active sets by construction: la_N0 / la_F0 start as np.zeros(...) and only their active entries are stored; nothing of a previous assembly (or any other source) survives in the entries of open / separating contacts", 2)
    inactive_forces_zero(ctx)
    rep.rule("C16.R7", "a friction law that depends on a normal force reaches the prox loop only for an ACTIVE normal contact (else it is mistaken for a constant reservoir)", 1)
    linked_law_needs_active_contact(ctx)
    rep.rule("C16.R6", "local normal/friction connectivity of the contacts active at t0 (index typing in compute_I_F, shared with C18.R5)", 4)
    from .c18 import nf_link
    nf_link(ctx, "C16.R6")
    rep.rule("C16.R5", "one scalar prox parameter per vector-valued friction law (Coulomb direction at acceleration level)", 2)
    fn = ctx.repo.get(SB, "consistent_initial_conditions")
    C = f"{SB}:consistent_initial_conditions"
    rep.rule("C16.R10", "the contact rejection asserts can fail: the closed-contact sets they excuse are two-sided closeness tests", 2)
    rejection_falsifiable(ctx, fn, C)
    rep.rule("C16.R8", "the contact fixed point runs whenever an active set it solves for is non-empty (constant-reservoir friction)", 2)
    loop = fixed_point_gate(ctx, fn, C)
    rep.rule("C16.R9", "all unknowns of the initial linear system are taken from the converged solve", 3)
    one_solve(ctx, fn, C, loop)
    res = termset.Resolver(fn)
    # ---- R1
    sites = termset.eom_sites(fn, res)
    if not sites:
        raise AnalysisError("no equation-of-motion expression (containing system.h) found in consistent_initial_conditions")
    for site, fam in sites:
        for group in APPLIED:
            miss = [g for g in group if g not in fam]
            if miss:
                rep.bad("C16.R1", C, site, f"the right-hand side `{norm_src(site)[:80]}` lacks the applied-force family {' @ '.join(group)}: "
                        f"initial accelerations and constraint forces ignore it", f"{SB}:{site.lineno}")
            else:
                rep.ok("C16.R1", C, f"rhs contains {' @ '.join(group)}")
    bm = [n for n in ast.walk(fn) if isinstance(n, ast.Call) and dotted(n.func) == "bmat"]
    if not bm:
        raise AnalysisError("bmat of the initial KKT system not found")
    famA = res.families(bm[0])
    for f in ("M", "W_g", "W_gamma", "g_dot_u", "gamma_u"):
        if f in famA:
            rep.ok("C16.R1", C, f"KKT matrix contains {f}")
        else:
            rep.bad("C16.R1", C, bm[0], f"KKT matrix lacks {f}", f"{SB}:{bm[0].lineno}")
    b0 = res.local.get("b0", [None])[0]
    famb = res.families(b0) if b0 is not None else set()
    for f in ("zeta_g", "zeta_gamma"):
        if f in famb:
            rep.ok("C16.R1", C, f"rhs contains {f}")
        else:
            rep.bad("C16.R1", C, b0 if b0 is not None else "b0", f"acceleration-level constraint row lacks {f}", f"{SB}:{fn.lineno}")
    contact = [n for n in ast.walk(fn) if isinstance(n, ast.AugAssign) and isinstance(n.op, ast.Add) and "W_N" in res.families(n.value) | {x.id for x in ast.walk(n.value) if isinstance(x, ast.Name)}]
    if contact and {"W_N", "W_F"} <= (res.families(contact[0].value)):
        rep.ok("C16.R1", C, f"contact iteration adds {norm_src(contact[0].value)}")
    else:
        rep.bad("C16.R1", C, contact[0] if contact else "b[:nu] += W_N @ la_N + W_F @ la_F", "contact forces W_N la_N + W_F la_F are not added to the right-hand side of the fixed-point iteration",
                f"{SB}:{contact[0].lineno if contact else fn.lineno}")
    # sibling
    cls = ctx.repo.get(IVP, "ScipyIVP")
    eqm = ctx.repo.get(IVP, "ScipyIVP.eqm")
    res2 = termset.Resolver(eqm, cls)
    s2 = termset.eom_sites(eqm, res2)
    if s2:
        f1 = set().union(*[f for _, f in sites]) & {"h", "W_c", "la_c", "W_tau", "la_tau"}
        f2 = set().union(*[f for _, f in s2]) & {"h", "W_c", "la_c", "W_tau", "la_tau"}
        if f1 == f2:
            rep.ok("C16.R1", C, f"same applied families as ScipyIVP.eqm: {sorted(f1)}")
        else:
            rep.note(f"C16.R1: applied families differ from ScipyIVP.eqm: {sorted(f1)} vs {sorted(f2)}")
    # ---- R2
    cfg = CFG(fn)
    rets = [n for n in cfg.nodes if n.kind == "stmt" and isinstance(n.ast, ast.Return)]
    final = [r for r in rets if "u_dot0" in norm_src(r.ast)]
    if not final:
        raise AnalysisError("final return of consistent_initial_conditions not recognised")
    final = final[-1]
    asserts = [n for n in cfg.nodes if n.kind == "test" and isinstance(n.owner, ast.Assert)]
    for q in ("g", "g_dot", "g_ddot", "gamma", "gamma_dot", "g_S", "g_N", "g_N_dot"):
        hit = [a for a in asserts if q in res.families(a.ast) and cfg.dominates(a, final)]
        if hit:
            rep.ok("C16.R2", C, f"assert on {q} dominates the normal return: {norm_src(hit[0].ast)[:70]}")
        else:
            rep.bad("C16.R2", C, f"assert ... {q}", f"no assertion on system.{q}(t0, q0, ...) dominates the normal return: an initial state violating it is not rejected",
                    f"{SB}:{final.lineno}")
    early = [r for r in rets if r is not final]
    for r in early:
        from ..cfg import control_deps
        cd = control_deps(cfg)
        tests = [cfg.nodes[t] for t, lab in cd[r.id]]
        ok = any("compute_consistent_initial_conditions" in norm_src(t.ast) for t in tests)
        if ok:
            rep.ok("C16.R2", C, f"early return is the explicit opt-out: {norm_src(tests[0].ast)[:80]}")
        else:
            rep.bad("C16.R2", C, r.ast, "an early return bypasses the consistency checks without the explicit opt-out", f"{SB}:{r.lineno}")
    # ---- R3
    sc = [n for n in cfg.nodes if n.kind == "stmt" and isinstance(n.ast, ast.Assign) and termset.is_system_call(n.ast.value) == "step_callback"]
    if not sc or norm_src(sc[0].ast) not in ("(q0, u0) = system.step_callback(t0, q0, u0)", "q0, u0 = system.step_callback(t0, q0, u0)"):
        rep.bad("C16.R3", C, sc[0].ast if sc else "q0, u0 = system.step_callback(t0, q0, u0)", "initial state is not normalised through system.step_callback(t0, q0, u0)", f"{SB}:{fn.lineno}")
    else:
        rep.ok("C16.R3", C, norm_src(sc[0].ast))
    UARG = {"h", "la_c", "g_dot", "gamma", "gamma_F", "g_N_dot", "q_dot", "zeta_g", "zeta_gamma", "g_ddot", "gamma_dot", "g_N_ddot", "gamma_F_dot", "la_tau"}
    for n in ast.walk(fn):
        m = termset.is_system_call(n)
        if not m or m in ("step_callback", "get_contribution_list"):
            continue
        args = [norm_src(a) for a in n.args]
        want = ["t0", "q0"] + (["u0"] if m in UARG else [])
        if args[: len(want)] == want:
            # 4th argument: accelerations
            if len(args) > len(want) and m in ("g_ddot", "gamma_dot"):
                if args[len(want)] != "u_dot0":
                    rep.bad("C16.R3", C, n, f"{m} must be checked at the computed accelerations u_dot0", f"{SB}:{n.lineno}")
                    continue
            rep.ok("C16.R3", C, f"system.{m}({', '.join(args)})")
        else:
            rep.bad("C16.R3", C, n, f"system.{m} is evaluated at ({', '.join(args[:3])}) instead of ({', '.join(want)})", f"{SB}:{n.lineno}")
        if sc and n.lineno < sc[0].lineno and m not in ("step_callback",):
            rep.bad("C16.R3", C, n, f"system.{m} is evaluated before the initial state is normalised", f"{SB}:{n.lineno}")
    # ---- R4
    pf = ctx.repo.get(SB, "consistent_initial_conditions.prox")
    res3 = termset.Resolver(pf)
    # kinematics defined in the enclosing function are visible: merge
    for k, v in res.local.items():
        res3.local.setdefault(k, v)
    tags = proxrule.local_kinematics(pf, res3)
    calls = proxrule.prox_calls(pf)
    if len(calls) < 3:
        raise AnalysisError("fewer than 3 prox calls in consistent_initial_conditions.prox")
    for c in calls:
        r = proxrule.analyse_prox(c, res3, tags)
        Cp = f"{SB}:consistent_initial_conditions.prox"
        if r["ok"]:
            rep.ok("C16.R4", Cp, r["desc"])
        else:
            rep.bad("C16.R4", Cp, c, "; ".join(r["problems"]), f"{SB}:{c.lineno}")
        if r.get("scalar_r") is True:
            rep.ok("C16.R5", Cp, f"scalar prox parameter in {r['desc'][:90]}")
        elif r.get("scalar_r") is False:
            rep.bad("C16.R5", Cp, c, r["scalar_msg"], f"{SB}:{c.lineno}")
    nloc, bad = proxrule.check_locality(pf, tags)
    for node, msg in bad:
        rep.bad("C16.R4", f"{SB}:consistent_initial_conditions.prox", proxrule._stmt_of(node) if not isinstance(node, ast.stmt) else node, msg, f"{SB}:{node.lineno}")
    if not bad:
        rep.ok("C16.R4", f"{SB}:consistent_initial_conditions.prox", f"per-contact locality: {nloc} uses of contact arrays all indexed with the contact's own i_N / i_F")
    # stick/slip split: the slip branch uses the velocity gamma_F, the stick branch the acceleration gamma_F_dot
    ifs = [n for n in ast.walk(pf) if isinstance(n, ast.If) and "isclose" in norm_src(n.test) and "gamma_F" in norm_src(n.test)]
    if ifs:
        stick = norm_src(ifs[0].body[0]) if ifs[0].body else ""
        slip = norm_src(ifs[0].orelse[0]) if ifs[0].orelse else ""
        if "gamma_F_dot" in stick and "gamma_Fi" in slip and "gamma_F_dot" not in slip:
            rep.ok("C16.R4", f"{SB}:consistent_initial_conditions.prox", "stick branch projects gamma_F_dot, slip branch gamma_F")
        else:
            rep.bad("C16.R4", f"{SB}:consistent_initial_conditions.prox", ifs[0].test, "stick/slip split does not use gamma_F_dot for sticking and gamma_F for sliding contacts",
                    f"{SB}:{ifs[0].lineno}")


MUTANTS = [
    dict(id="c16-m1", canary=True, what="actuator forces missing in the initial accelerations (original defect)", file=SB,
         old="            h + W_c @ la_c0 + W_tau @ la_tau0,", new="            h + W_c @ la_c0,", expect="C16.R1"),
    dict(id="c16-m2", canary=True, what="assert on g_dot removed", file=SB,
         old="    assert np.allclose(\n        g_dot0, np.zeros(system.nla_g), atol=IS_CLOSE_ATOL\n    ), \"Initial conditions do not fulfill g_dot0!\"\n", new="", expect="C16.R2"),
    dict(id="c16-m3", what="constraint matrix evaluated at the un-normalised state", file=SB,
         old="    W_g = system.W_g(t0, q0)\n", new="    W_g = system.W_g(t0, system.q0)\n", expect="C16.R3"),
    dict(id="c16-m4", what="friction prox uses the normal prox parameter", file=SB,
         old="                    min(prox_r_F[i_F]) * gamma_Fi - la_F[i_F],", new="                    min(prox_r_N[i_F]) * gamma_Fi - la_F[i_F],", expect="C16.R4"),
    dict(id="c16-m5", what="Signorini update loses its minus sign", file=SB,
         old="        la_N = -NegativeOrthant.prox(prox_r_N * g_N_ddot - la_N)", new="        la_N = NegativeOrthant.prox(prox_r_N * g_N_ddot - la_N)", expect="C16.R4"),
    dict(id="c16-m6", what="penetration check removed", file=SB,
         old="    assert np.all(\n        np.logical_or(g_N >= 0, A_N)\n    ), \"Initial conditions do not fulfill g_N0!\"\n", new="", expect="C16.R2"),
    dict(id="c16-m7", what="gamma row of the KKT matrix dropped", file=SB,
         old="            [gamma_u, None,     None],\n        ],\n        format=\"csc\",", new="            [None, None,     None],\n        ],\n        format=\"csc\",", expect="C16.R1"),
    dict(id="c16-m8", what="friction forces not fed back into the linear system", file=SB,
         old="            b[: system.nu] += W_N @ la_N1 + W_F @ la_F1", new="            b[: system.nu] += W_N @ la_N1", expect="C16.R1"),
    dict(id="c16-m9", what="friction reservoir scaled by the friction force instead of the linked normal force", file=SB,
         old="                la_Ni = la_N[i_N]\n", new="                la_Ni = la_F[i_F]\n", expect="C16.R4"),
    dict(id="c16-m11", what="stick/slip decision looks at the slip velocities of all contacts (seeded/C16-1)", file=SB,
         old="                norm(gamma_Fi), 0, atol=IS_CLOSE_ATOL", new="                norm(gamma_F), 0, atol=IS_CLOSE_ATOL", expect="C16.R4"),
    dict(id="c16-m10", what="g_ddot checked at zero accelerations", file=SB,
         old="    g_ddot0 = system.g_ddot(t0, q0, u0, u_dot0)", new="    g_ddot0 = system.g_ddot(t0, q0, u0, np.zeros_like(u0))", expect="C16.R3"),
]
MUTANTS += [
    dict(id="c16-r5-1", canary=True, what="consistent initial conditions: per-component prox parameter in the slip projection (original defect)", file=SB,
         old="                    min(prox_r_F[i_F]) * gamma_Fi - la_F[i_F],", new="                    prox_r_F[i_F] * gamma_Fi - la_F[i_F],", expect="C16.R5"),
]
MUTANTS += [
    dict(id="c16-r8-1", canary=True, what="fixed point gated by the normal active set only (original defect F45)", file=SB,
         old="    if len(B_N) > 0 or len(B_F) > 0:\n", new="    if len(B_N) > 0:\n", expect="C16.R8"),
    dict(id="c16-r9-seed", canary=True, what="[seeded by sub-agent] constraint forces unpacked once from the contact-free solve, loop carries accelerations only", file=SB,
         edits=[(SB, "    x0 = lu.solve(b0)\n", "    x0 = lu.solve(b0)\n    _, la_g0, la_gamma0 = np.array_split(x0, split_x)\n"),
                (SB, "    u_dot0, la_g0, la_gamma0 = np.array_split(x0, split_x)\n", "    u_dot0 = x0[: system.nu]\n")],
         expect="C16.R9"),
]
MUTANTS += [
    dict(id="c16-r10-seed", canary=True, what="[seeded by sub-agent] closed-contact sets defined one-sidedly (g_N <= tol)", file=SB,
         old="    A_N = np.isclose(g_N, np.zeros(system.nla_N), atol=IS_CLOSE_ATOL)\n    B_N = A_N * np.isclose(g_N_dot, np.zeros(system.nla_N), atol=IS_CLOSE_ATOL)\n",
         new="    A_N = g_N <= IS_CLOSE_ATOL\n    B_N = A_N * (g_N_dot <= IS_CLOSE_ATOL)\n", expect="C16.R10"),
]
NEUTRAL = [
    dict(id="c16-n-r10", canary=True, what="closed-contact sets written with abs() <= tol", file=SB,
         old="    A_N = np.isclose(g_N, np.zeros(system.nla_N), atol=IS_CLOSE_ATOL)\n    B_N = A_N * np.isclose(g_N_dot, np.zeros(system.nla_N), atol=IS_CLOSE_ATOL)\n",
         new="    A_N = np.abs(g_N) <= IS_CLOSE_ATOL\n    B_N = A_N * (np.abs(g_N_dot) <= IS_CLOSE_ATOL)\n"),
    dict(id="c16-n-r8", canary=True, what="fixed point unguarded", file=SB,
         old="    if len(B_N) > 0 or len(B_F) > 0:\n", new="    if True:\n"),
    dict(id="c16-n-r9", what="solution split through slices instead of array_split", file=SB,
         old="    u_dot0, la_g0, la_gamma0 = np.array_split(x0, split_x)\n",
         new="    u_dot0 = x0[: system.nu]\n    la_g0 = x0[system.nu : system.nu + system.nla_g]\n    la_gamma0 = x0[system.nu + system.nla_g :]\n"),
]

MUTANTS += [
    dict(id="c16-r7-f40", canary=True, what="fix F40 reverted: an unsliced friction law of an open contact is appended with an empty local normal index (read as constant reservoir 1.0)", file='cardillo/solver/_base.py',
         old='                if i_N_global in I_N:\n                    nla_F_local += n_F\n                    i_N_local = np.where(i_N_global == I_N)[0]\n                    I_F.extend(i_F_global)\n                    global_active_friction_laws.append(\n                        (i_N_local, i_F_local, force_reservoir)\n                    )\n                elif not slice:\n                    # friction law is kept although its normal contact is not\n                    # active: None marks the vanishing normal force (an empty\n                    # index would read as "no normal force dependence")\n                    nla_F_local += n_F\n                    I_F.extend(i_F_global)\n                    global_active_friction_laws.append(\n                        (None, i_F_local, force_reservoir)\n                    )\n', new='                if not slice or (i_N_global in I_N):\n                    nla_F_local += n_F\n                    i_N_local = np.where(i_N_global == I_N)[0]\n                    I_F.extend(i_F_global)\n                    global_active_friction_laws.append(\n                        (i_N_local, i_F_local, force_reservoir)\n                    )\n', expect="C16.R7"),
    dict(id="c16-r7-consumer", what="consistent_initial_conditions.prox asks len(i_N) without excluding the marker None of an inactive contact", file='cardillo/solver/_base.py',
         old='            if i_N is None:  # normal contact is not active: no normal force\n                la_Ni = 0.0\n            elif len(i_N) > 0:\n                la_Ni = la_N[i_N]\n', new='            if len(i_N) > 0:\n                la_Ni = la_N[i_N]\n', expect="C16.R7"),
]

MUTANTS += [
    dict(id="c16-r11-seed", canary=True, what="[seeded by sub-agent] the contact fixed point is warm started with the forces of the previous assembly of the same system (entries of non-persistent contacts never reset)", file='cardillo/solver/_base.py',
         old="    la_N0 = np.zeros(system.nla_N)\n    la_F0 = np.zeros(system.nla_F)\n",
         new="    la_N0 = getattr(system, \"la_N0\", np.zeros(system.nla_N)).copy()\n    la_F0 = getattr(system, \"la_F0\", np.zeros(system.nla_F)).copy()\n", expect="C16.R11"),
]

MUTANTS += [
    dict(id="c16-r12-seed", canary=True, what="[seeded by sub-agent] the initial contact fixed point gets a relative tolerance scaled by the whole solution vector (u_dot, la_g, la_gamma)", file='cardillo/solver/_base.py',
         old='            converged_fixed_point = error_fixed_point < options.fixed_point_atol\n', new='            tol_fixed_point = options.fixed_point_atol + options.fixed_point_rtol * max(\n                np.max(np.absolute(x0)), np.max(np.absolute(x1))\n            )\n            converged_fixed_point = error_fixed_point < tol_fixed_point\n', expect="C16.R12"),
]
NEUTRAL += [
    dict(id="c16-n-r12", canary=True, what="the initial contact fixed point gets a relative tolerance scaled by the accelerations it measures", file='cardillo/solver/_base.py', old='            converged_fixed_point = error_fixed_point < options.fixed_point_atol\n', new='            tol_fixed_point = options.fixed_point_atol + options.fixed_point_rtol * max(\n                np.max(np.absolute(x0[: system.nu])), np.max(np.absolute(x1[: system.nu]))\n            )\n            converged_fixed_point = error_fixed_point < tol_fixed_point\n'),
]
