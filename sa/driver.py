"""Driver: runs one property's rules against /repo's current working tree, handles known
findings, writes evidence, runs the in-memory seeded-fault self-test."""
from __future__ import annotations

import argparse
import importlib
import json
import os
import sys
import time
import traceback

from .core import AnalysisError, Repo, Report, VERIF_DIR, load_known, match_known, REPO_DEFAULT


# the registered commands always write /verif/evidence; tools that analyse scratch trees (seed matrix) redirect it
EVIDENCE_DIR = os.environ.get("VERIF_EVIDENCE_DIR") or os.path.join(VERIF_DIR, "evidence")


class Ctx:
    def __init__(self, prop, repo: Repo, tier: str):
        self.prop = prop
        self.repo = repo
        self.tier = tier
        self.rep = Report(prop)
        self._model = None
        self._full = None

    @property
    def model(self):
        if self._model is None:
            from .model import Model
            self._model = Model(self.repo)
        return self._model

    def full_repo(self) -> Repo:
        """cardillo/ + examples/ + test/ (call sites only)."""
        if self._full is None:
            self._full = Repo(self.repo.root, self.repo.overlay, trees=("cardillo", "examples", "test"))
        return self._full


def load_prop(pid):
    return importlib.import_module(f"sa.props.{pid.lower()}")


def analyse(pid, overlay=None, tier="quick", root=REPO_DEFAULT) -> Report:
    mod = load_prop(pid)
    repo = Repo(root, overlay)
    if repo.parse_errors:
        raise AnalysisError("syntax errors in source tree: " + "; ".join(repo.parse_errors[:3]))
    ctx = Ctx(pid, repo, tier)
    mod.run(ctx)
    ctx.rep.check_floors()
    return ctx.rep


# ---------------------------------------------------------------------------
# self-test: in-memory mutants of the *current* tree
# ---------------------------------------------------------------------------
def _apply(mut, root):
    """Return overlay dict or None when the anchor text is not (uniquely) present."""
    overlay = {}
    edits = mut.get("edits") or [(mut["file"], mut["old"], mut["new"])]
    for rel, old, new in edits:
        p = os.path.join(root, rel)
        if rel in overlay:
            text = overlay[rel]
        else:
            try:
                with open(p, encoding="utf-8") as fh:
                    text = fh.read()
            except OSError:
                return None
        if mut.get("every") and text.count(old) >= 1:
            overlay[rel] = text.replace(old, new)       # the same edit at every occurrence (a change made to all sibling kernels)
            continue
        if text.count(old) != 1:
            return None
        overlay[rel] = text.replace(old, new)
    return overlay


def _run_mutant(args):
    pid, mut, root, base_keys = args
    try:
        ov = _apply(mut, root)
        if ov is None:
            return (mut["id"], "skipped", "anchor text not found exactly once")
        try:
            rep = analyse(pid, ov, "quick", root)
        except AnalysisError as e:
            # an analysis error on a mutant counts as 'noticed' only for expect == 'error'
            return (mut["id"], "analysis-error", str(e))
        new = [f for f in rep.findings if f.key() not in base_keys]
        return (mut["id"], "findings", [(f.rule, f.construct, f.msg) for f in new])
    except Exception as e:  # pragma: no cover
        return (mut["id"], "crash", traceback.format_exc(limit=3))


def selftest(pid, base_rep, tier, root):
    mod = load_prop(pid)
    muts = list(getattr(mod, "MUTANTS", []))
    neutral = list(getattr(mod, "NEUTRAL", []))
    if tier == "quick":
        muts = [m for m in muts if m.get("canary")]
        neutral = [m for m in neutral if m.get("canary")]
    base_keys = {f.key() for f in base_rep.findings}
    jobs = [(pid, m, root, base_keys) for m in muts + neutral]
    results = {}
    if not jobs:
        return {"mutants": 0, "detected": 0, "neutral": 0, "skipped": 0, "failures": [], "details": []}
    if len(jobs) > 3:
        import multiprocessing as mp
        with mp.get_context("fork").Pool(min(16, len(jobs))) as pool:
            for r in pool.imap_unordered(_run_mutant, jobs):
                results[r[0]] = r
    else:
        for j in jobs:
            r = _run_mutant(j)
            results[r[0]] = r
    failures, details = [], []
    detected = skipped = 0
    for m in muts:
        _, kind, payload = results[m["id"]]
        if kind == "skipped":
            skipped += 1
            details.append({"mutant": m["id"], "result": "skipped (anchor gone)"})
            continue
        ok = False
        if kind == "findings":
            want = m.get("expect")
            hit = [p for p in payload if want is None or p[0] == want or (isinstance(want, (list, tuple)) and p[0] in want)]
            ok = bool(hit)
        elif kind == "analysis-error" and m.get("expect") == "error":
            ok = True
        if ok:
            detected += 1
            details.append({"mutant": m["id"], "what": m.get("what", ""), "result": "detected",
                            "by": sorted({p[0] for p in payload}) if kind == "findings" else ["analysis-error"]})
        else:
            failures.append(f"mutant {m['id']} ({m.get('what','')}) not detected: {kind} {payload}")
            details.append({"mutant": m["id"], "result": "MISSED", "raw": str(payload)[:300]})
    n_neutral = 0
    for m in neutral:
        _, kind, payload = results[m["id"]]
        if kind == "skipped":
            skipped += 1
            continue
        n_neutral += 1
        if kind != "findings" or payload:
            failures.append(f"behaviour-preserving edit {m['id']} ({m.get('what','')}) raised: {kind} {payload}")
            details.append({"neutral": m["id"], "result": "FALSE ALARM", "raw": str(payload)[:300]})
        else:
            details.append({"neutral": m["id"], "what": m.get("what", ""), "result": "silent"})
    return {"mutants": len(muts), "detected": detected, "neutral": n_neutral, "skipped": skipped,
            "failures": failures, "details": details}


# ---------------------------------------------------------------------------
def write_evidence(pid, tier, rep: Report | None, wall, viol, known_hits, st, error=None, blind=None):
    mod = load_prop(pid)
    os.makedirs(EVIDENCE_DIR, exist_ok=True)
    inst = rep.instances if rep else []
    nontriv = {(i["rule"], i["construct"], i["obligation"]) for i in inst if not i.get("trivial")}
    # samples: up to 3 per rule
    samples, per = [], {}
    for i in inst:
        k = i["rule"]
        if per.get(k, 0) < 3:
            per[k] = per.get(k, 0) + 1
            samples.append({k2: i[k2] for k2 in ("rule", "construct", "obligation", "verdict")})
    cov = {
        "explanation": getattr(mod, "EXPLANATION", "") + (f" ANALYSIS-ERROR: {error}" if error else ""),
        "evaluations": len(inst),
        "distinct_nontrivial": len(nontriv),
        "rule": "one case = one rule instance (rule id, construct, obligation) enumerated from the parsed "
                "program; non-trivial = the rule had an obligation to discharge at that construct "
                "(constructs the rule skips are not counted); distinct = distinct (rule, construct, obligation)",
        "samples": samples or [{"note": "no instance analysed"}],
        "exhaustive": error is None,
        "rules": {rid: {"doc": rep.rules_doc.get(rid, ""), "instances": rep.rule_counts.get(rid, 0),
                        "floor": rep.floors.get(rid, 0)} for rid in (rep.rules_doc if rep else {})},
        "findings_new": [f.as_dict() for f in viol],
        "findings_known": [f.as_dict() for f, _ in known_hits],
        "notes": rep.notes if rep else [],
        "selftest": st,
        "not_decided": getattr(mod, "NOT_DECIDED", ""),
        "known_blind_spots": getattr(mod, "BLIND_SPOTS", []),
        "files_parsed": None,
    }
    ev = {
        "property_id": pid,
        "tier": tier,
        "seed": int(os.environ.get("VERIF_SEED", "0") or 0),
        "level": "other",
        "coverage": cov,
        "assumptions": list(getattr(mod, "ASSUMPTIONS", [])) + [
            "CPython ast parses the same grammar as the interpreter the repository targets (3.12)",
            "python asserts are enabled (the repository relies on them for rejection)",
            "the analysers never import or execute cardillo code; verdicts are about the named structural clauses only",
        ],
        "wall_s": round(wall, 3),
        "violations": len(viol),
    }
    with open(os.path.join(EVIDENCE_DIR, f"{pid}.json"), "w") as fh:
        json.dump(ev, fh, indent=1)


def main(argv):
    ap = argparse.ArgumentParser()
    ap.add_argument("prop")
    ap.add_argument("--tier", default=os.environ.get("VERIF_TIER", "quick"), choices=["quick", "thorough"])
    ap.add_argument("--replay", default=None)
    ap.add_argument("--root", default=REPO_DEFAULT)
    ap.add_argument("--verbose", "-v", action="store_true")
    a = ap.parse_args(argv)
    pid = a.prop.upper()
    t0 = time.time()
    rep = None
    try:
        rep = analyse(pid, None, a.tier, a.root)
        known = load_known()
        viol, known_hits = [], []
        for f in rep.findings:
            k = match_known(f, known)
            if k:
                known_hits.append((f, k))
            else:
                viol.append(f)
        print(f"[{pid}] tier={a.tier} rule instances analysed: {len(rep.instances)}")
        for rid, n in sorted(rep.rule_counts.items()):
            print(f"[{pid}]   rule {rid}: {n} instances (floor {rep.floors.get(rid, 0)}) — {rep.rules_doc.get(rid, '')}")
        if a.verbose:
            for i in rep.instances:
                print("   ", i["rule"], i["construct"], "::", i["obligation"], "=>", i["verdict"])
        for n in rep.notes:
            print(f"[{pid}] note: {n}")
        for f, k in known_hits:
            print(f"KNOWN-FINDING: property={pid} {k.get('id', '')} {f.rule} at {f.construct}: {f.msg}")
        if a.replay:
            try:
                want = json.load(open(a.replay)).get("findings", [])
            except Exception as e:
                raise AnalysisError(f"cannot read replay file {a.replay}: {e}")
            keys = {(f.prop, f.rule, f.construct, f.stmt) for f in rep.findings}
            for w in want:
                k = (w["property"], w["rule"], w["construct"], w["statement"])
                print(f"[{pid}] replay {w['rule']} at {w['construct']}: {'REPRODUCED' if k in keys else 'not reproduced'}")
        st = None
        if not viol and os.environ.get("VERIF_NO_SELFTEST"):
            # tools that only want the verdict on a scratch tree (seed matrix) skip the mutant runs; never set by the registered commands
            st = {"mutants": 0, "detected": 0, "neutral": 0, "skipped": 0, "failures": [], "details": [], "note": "self-test skipped (VERIF_NO_SELFTEST)"}
            print(f"[{pid}] self-test skipped (VERIF_NO_SELFTEST)")
        elif not viol:
            st = selftest(pid, rep, a.tier, a.root)
            if "note" not in st:
                print(f"[{pid}] self-test: {st['detected']}/{st['mutants']} seeded faults detected, "
                      f"{st['neutral']} behaviour-preserving edits silent, {st['skipped']} skipped")
            if st["failures"]:
                for x in st["failures"]:
                    print(f"[{pid}] SELFTEST-FAILURE: {x}")
                # The in-memory mutants are edits of the tree *as it is now*.  On the pinned tree they are all detected (that is
                # verified before every commit with VERIF_SELFTEST_STRICT=1, which turns a failure into exit 2).  On a tree that
                # somebody has changed, a mutant can stop being detectable for reasons that say nothing about this property
                # (its anchor now sits in different code), so by default a failure is reported and recorded in the evidence but
                # does not change the verdict on the tree under analysis.
                if os.environ.get("VERIF_SELFTEST_STRICT"):
                    write_evidence(pid, a.tier, rep, time.time() - t0, viol, known_hits, st,
                                   error="self-test failed: " + "; ".join(st["failures"])[:500])
                    print(f"ANALYSIS-ERROR property={pid} self-test failed (checker lost sensitivity or raised a false alarm)")
                    return 2
                print(f"[{pid}] note: self-test failures do not change the verdict on this tree (set VERIF_SELFTEST_STRICT=1 to make them fatal)")
        write_evidence(pid, a.tier, rep, time.time() - t0, viol, known_hits, st)
        if viol:
            rdir = os.path.join(EVIDENCE_DIR, "replay")
            os.makedirs(rdir, exist_ok=True)
            rp = os.path.join(rdir, f"{pid}.json")
            with open(rp, "w") as fh:
                json.dump({"property": pid, "findings": [f.as_dict() for f in viol]}, fh, indent=1)
            for f in viol:
                print(f"[{pid}] {f.loc} rule={f.rule} construct={f.construct}\n      {f.msg}\n      statement: {f.stmt}")
            print(f"VIOLATION property={pid} replay={rp}")
            return 1
        print(f"[{pid}] OK ({time.time() - t0:.2f}s)")
        return 0
    except AnalysisError as e:
        try:
            write_evidence(pid, a.tier, rep, time.time() - t0, [], [], None, error=str(e))
        except Exception:
            pass
        print(f"ANALYSIS-ERROR property={pid} {e}")
        return 2
    except Exception:
        traceback.print_exc()
        print(f"ANALYSIS-ERROR property={pid} internal error in the analyser (see traceback)")
        return 2
