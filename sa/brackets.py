"""K19: bracket normal form of scalar vector invariants.

Scalar expressions built from 3-vectors with dot and cross products have a normal form as integer polynomials in the "brackets"
dot(a, b) and det(a, b, c) of ATOMIC vectors: nested cross products are removed with  a x (b x c) = b (a.c) - c (a.b)  and
(a x b).(c x d) = (a.c)(b.d) - (a.d)(b.c); dot / det brackets are sorted (det with the sign of the permutation).  The normal form is not
unique up to the Gram / Plücker syzygies, but two expressions that differ by a SIGN or a COEFFICIENT of one monomial - the typical slip in a
hand-written acceleration term (centripetal / Coriolis) - have different normal forms as long as both sides are built the same way, which is
the case when one side is the mechanical time derivative of the other computed here.

Time derivative: product rule over brackets with a table  atom -> vector normal form  (e -> Omega x e for a body-fixed direction, r -> v,
v -> a, Omega -> Psi).

Input: the AST itself (`Bracketer`), with exact rational coefficients - K12 abstracts magnitudes to signs and cannot tell `2 Omega x v`
from `Omega x v`.  Equality of two normal forms is decided modulo the syzygies by exact evaluation of the difference polynomial at integer
points (`same_function`): a nonzero value is a proof that the two expressions differ as functions of the vectors."""
from __future__ import annotations

from fractions import Fraction
from itertools import product

# vector normal form: list of (coef, brackets(tuple, sorted), vec) with vec = ("a", name) | ("x", name1, name2)
# scalar normal form: dict {brackets(tuple, sorted): coef}


def _dot(a, b):
    return ("dot",) + tuple(sorted((a, b)))


def _det(a, b, c):
    """-> (sign, bracket) or (0, None) if two atoms coincide"""
    if len({a, b, c}) < 3:
        return 0, None
    idx = sorted(range(3), key=lambda i: (a, b, c)[i])
    inv = sum(1 for i in range(3) for j in range(i + 1, 3) if idx[i] > idx[j])
    s = sorted((a, b, c))
    return (-1 if inv % 2 else 1), ("det",) + tuple(s)


def vatom(a):
    return [(1, (), ("a", a))]


def vscale(U, k):
    return [(c * k, br, v) for c, br, v in U if c * k != 0]


def vadd(U, W, sign=1):
    return U + vscale(W, sign)


def _mk(c, br, extra, v):
    return (c, tuple(sorted(br + tuple(extra))), v)


def vcross(U, W):
    out = []
    for (c1, b1, v1), (c2, b2, v2) in product(U, W):
        c, br = c1 * c2, b1 + b2
        if v1[0] == "a" and v2[0] == "a":
            if v1[1] != v2[1]:
                out.append(_mk(c, br, (), ("x", v1[1], v2[1])))
        elif v1[0] == "a" and v2[0] == "x":
            a, (b, cc) = v1[1], v2[1:]
            out.append(_mk(c, br, (_dot(a, cc),), ("a", b)))
            out.append(_mk(-c, br, (_dot(a, b),), ("a", cc)))
        elif v1[0] == "x" and v2[0] == "a":
            (a, b), cc = v1[1:], v2[1]
            out.append(_mk(c, br, (_dot(cc, a),), ("a", b)))
            out.append(_mk(-c, br, (_dot(cc, b),), ("a", a)))
        else:
            (a, b), (cc, d) = v1[1:], v2[1:]
            s1, d1 = _det(a, b, d)
            s2, d2 = _det(a, b, cc)
            if s1:
                out.append(_mk(c * s1, br, (d1,), ("a", cc)))
            if s2:
                out.append(_mk(-c * s2, br, (d2,), ("a", d)))
    return out


def sdot(U, W):
    out = {}

    def put(c, br):
        if c:
            k = tuple(sorted(br))
            out[k] = out.get(k, 0) + c
    for (c1, b1, v1), (c2, b2, v2) in product(U, W):
        c, br = c1 * c2, b1 + b2
        if v1[0] == "a" and v2[0] == "a":
            put(c, br + (_dot(v1[1], v2[1]),))
        elif v1[0] == "a" and v2[0] == "x":
            s, d = _det(v1[1], v2[1], v2[2])
            if s:
                put(c * s, br + (d,))
        elif v1[0] == "x" and v2[0] == "a":
            s, d = _det(v1[1], v1[2], v2[1])
            if s:
                put(c * s, br + (d,))
        else:
            (a, b), (cc, d) = v1[1:], v2[1:]
            put(c, br + (_dot(a, cc), _dot(b, d)))
            put(-c, br + (_dot(a, d), _dot(b, cc)))
    return {k: v for k, v in out.items() if v}


def sadd(A, B, sign=1):
    out = dict(A)
    for k, v in B.items():
        out[k] = out.get(k, 0) + sign * v
    return {k: v for k, v in out.items() if v}


def _bracket_as_vectors(b):
    """a bracket as dot(U, W) of vector normal forms"""
    if b[0] == "dot":
        return vatom(b[1]), vatom(b[2])
    return vatom(b[1]), vcross(vatom(b[2]), vatom(b[3]))


def ddt(S, table):
    """time derivative of a scalar normal form; table: atom -> vector normal form of its derivative (missing atom: constant)"""
    out = {}
    for mono, coef in S.items():
        for i, b in enumerate(mono):
            if b[0] == "sym":
                continue
            rest = mono[:i] + mono[i + 1:]
            atoms = b[1:]
            for j, a in enumerate(atoms):
                if a not in table:
                    continue
                da = table[a]
                if b[0] == "dot":
                    other = atoms[1 - j]
                    term = sdot(da, vatom(other))
                else:
                    x, y = [atoms[k] for k in range(3) if k != j]
                    # det(a0,a1,a2) = a0 . (a1 x a2); put da in slot j keeping the cyclic order
                    vecs = [vatom(t) for t in atoms]
                    vecs[j] = da
                    term = sdot(vecs[0], vcross(vecs[1], vecs[2]))
                for k2, v2 in term.items():
                    kk = tuple(sorted(rest + k2))
                    out[kk] = out.get(kk, 0) + coef * v2
    return {k: v for k, v in out.items() if v}


class Bracketer:
    """AST -> normal form.  Values: ("s", scalar nf) | ("v", vector nf) | None (not readable).  Locals with a single binding are inlined;
    `atom(expr) -> name | None` names the atomic vectors (e.g. `self.v_J1(t, q, u)` -> v_J1, `A_IJ1[:, ax]` -> A_IJ1[ax])."""

    def __init__(self, fn, atom, rot=None):
        import ast
        self.ast = ast
        self.atom = atom
        self.rot = rot          # predicate: expression is a rotation that both sides carry as a common left factor (treated as identity)
        self.local = {}
        for n in ast.walk(fn):
            if isinstance(n, ast.Assign) and len(n.targets) == 1:
                t = n.targets[0]
                if isinstance(t, ast.Name):
                    self.local.setdefault(t.id, []).append(n.value)
                elif isinstance(t, ast.Tuple) and isinstance(n.value, ast.Tuple) and len(t.elts) == len(n.value.elts):
                    for a, b in zip(t.elts, n.value.elts):
                        if isinstance(a, ast.Name):
                            self.local.setdefault(a.id, []).append(b)

    def apply(self, e, X, depth=0):
        """(matrix expression e) applied to the vector normal form X; None if e is not built from skew / outer / identity / rotation
        factors, sums, products and scalar multiples"""
        ast = self.ast
        if depth > 14 or X is None:
            return None
        if self.rot is not None and self.rot(e):
            return X
        if isinstance(e, ast.Name):
            if e.id in ("eye3",):
                return X
            vs = self.local.get(e.id)
            if vs and len(vs) == 1:
                return self.apply(vs[0], X, depth + 1)
            return None
        if isinstance(e, ast.UnaryOp) and isinstance(e.op, (ast.USub, ast.UAdd)):
            r = self.apply(e.operand, X, depth + 1)
            return r if r is None or isinstance(e.op, ast.UAdd) else vscale(r, -1)
        if isinstance(e, ast.BinOp):
            if isinstance(e.op, (ast.Add, ast.Sub)):
                a, b = self.apply(e.left, X, depth + 1), self.apply(e.right, X, depth + 1)
                if a is None or b is None:
                    return None
                return vadd(a, b, -1 if isinstance(e.op, ast.Sub) else 1)
            if isinstance(e.op, ast.MatMult):
                inner = self.apply(e.right, X, depth + 1)
                return None if inner is None else self.apply(e.left, inner, depth + 1)
            if isinstance(e.op, (ast.Mult, ast.Div)):
                for m_, s_ in ((e.right, e.left), (e.left, e.right)):
                    if isinstance(e.op, ast.Div) and m_ is e.right:
                        continue
                    sv = self.ev(s_, depth + 1)
                    if sv is not None and sv[0] == "s":
                        if isinstance(e.op, ast.Div):
                            if set(sv[1]) != {()}:
                                return None
                            sv = ("s", {(): 1 / sv[1][()]})
                        r = self.apply(m_, X, depth + 1)
                        return None if r is None else vsmul(r, sv[1])
                return None
            return None
        if isinstance(e, ast.Call):
            f = e.func
            name = f.id if isinstance(f, ast.Name) else (f.attr if isinstance(f, ast.Attribute) else "")
            if name == "ax2skew" and len(e.args) == 1:
                a = self.ev(e.args[0], depth + 1)
                return None if a is None or a[0] != "v" else vcross(a[1], X)
            if name == "ax2skew_squared" and len(e.args) == 1:
                a = self.ev(e.args[0], depth + 1)
                return None if a is None or a[0] != "v" else vcross(a[1], vcross(a[1], X))
            if name == "outer" and len(e.args) == 2:
                a, b = self.ev(e.args[0], depth + 1), self.ev(e.args[1], depth + 1)
                if a is None or b is None or a[0] != "v" or b[0] != "v":
                    return None
                return vsmul(a[1], sdot(b[1], X))
            if name in ("eye", "identity") and e.args and isinstance(e.args[0], ast.Constant) and e.args[0].value == 3:
                return X
            return None
        return None

    def ev(self, e, depth=0):
        ast = self.ast
        if depth > 14:
            return None
        if isinstance(e, ast.Constant) and isinstance(e.value, (int, float)) and not isinstance(e.value, bool):
            c = Fraction(e.value).limit_denominator(10 ** 6)
            return ("s", {(): c} if c else {})
        a = self.atom(e)
        if a is not None:
            if isinstance(a, tuple) and a[0] == "sym":          # constant scalar datum (self.dist, a radius, ...)
                return ("s", {(("sym", a[1]),): Fraction(1)})
            return ("v", vatom(a))
        if isinstance(e, ast.Name):
            vs = self.local.get(e.id)
            if vs and len(vs) == 1:
                return self.ev(vs[0], depth + 1)
            return None
        if isinstance(e, ast.UnaryOp) and isinstance(e.op, (ast.USub, ast.UAdd)):
            r = self.ev(e.operand, depth + 1)
            if r is None or isinstance(e.op, ast.UAdd):
                return r
            return ("s", sadd({}, r[1], -1)) if r[0] == "s" else (r[0], vscale(r[1], -1))
        if isinstance(e, ast.BinOp) and isinstance(e.op, ast.MatMult) and self.rot is not None and self.rot(e.left):
            return self.ev(e.right, depth + 1)
        if isinstance(e, ast.BinOp):
            L, R = self.ev(e.left, depth + 1), self.ev(e.right, depth + 1)
            if L is None or R is None:
                return None
            if isinstance(e.op, (ast.Add, ast.Sub)):
                sg = -1 if isinstance(e.op, ast.Sub) else 1
                if L[0] != R[0]:
                    return None
                if L[0] == "s":
                    return ("s", sadd(L[1], R[1], sg))
                return (L[0], vadd(L[1], R[1], sg))
            if isinstance(e.op, (ast.Mult, ast.MatMult)):
                k = (L[0], R[0])
                if k == ("s", "s"):
                    return ("s", smul(L[1], R[1]))
                if k in (("s", "v"), ("s", "m")):
                    return (R[0], vsmul(R[1], L[1]))
                if k in (("v", "s"), ("m", "s")):
                    return (L[0], vsmul(L[1], R[1]))
                if k == ("v", "v") and isinstance(e.op, ast.MatMult):
                    return ("s", sdot(L[1], R[1]))
                if k == ("m", "v") and isinstance(e.op, ast.MatMult):
                    return ("v", vcross(L[1], R[1]))       # skew(a) b = a x b
                if k == ("v", "m") and isinstance(e.op, ast.MatMult):
                    return ("v", vcross(L[1], R[1]))       # a^T skew(b) = (a x b)^T
                return None
            if isinstance(e.op, ast.Pow) and L[0] == "s" and R[0] == "s" and set(R[1]) == {()} and R[1][()].denominator == 1 and 0 <= R[1][()] <= 4:
                out = {(): Fraction(1)}
                for _ in range(int(R[1][()])):
                    out = smul(out, L[1])
                return ("s", out)
            if isinstance(e.op, ast.Div) and R[0] == "s" and set(R[1]) == {()}:
                inv = {(): 1 / R[1][()]}
                return ("s", smul(L[1], inv)) if L[0] == "s" else (L[0], vsmul(L[1], inv))
            return None
        if isinstance(e, ast.Call):
            f = e.func
            name = f.id if isinstance(f, ast.Name) else (f.attr if isinstance(f, ast.Attribute) else "")
            if name in ("cross3", "cross") and len(e.args) == 2:
                L, R = self.ev(e.args[0], depth + 1), self.ev(e.args[1], depth + 1)
                if L is None or R is None or L[0] != "v" or R[0] != "v":
                    return None
                return ("v", vcross(L[1], R[1]))
            if name == "ax2skew" and len(e.args) == 1:
                L = self.ev(e.args[0], depth + 1)
                return None if L is None or L[0] != "v" else ("m", L[1])
            if name == "dot" and len(e.args) == 2:
                L, R = self.ev(e.args[0], depth + 1), self.ev(e.args[1], depth + 1)
                if L is None or R is None or L[0] != "v" or R[0] != "v":
                    return None
                return ("s", sdot(L[1], R[1]))
            return None
        return None


def smul(A, B):
    out = {}
    for (k1, v1), (k2, v2) in product(A.items(), B.items()):
        k = tuple(sorted(k1 + k2))
        out[k] = out.get(k, 0) + v1 * v2
    return {k: v for k, v in out.items() if v}


def vsmul(U, S):
    return [(c * sc, tuple(sorted(br + sk)), v) for c, br, v in U for sk, sc in S.items() if c * sc]


def atoms_of(S):
    return sorted({a for mono in S for b in mono if b[0] != "sym" for a in b[1:]})


def syms_of(S):
    return sorted({b[1] for mono in S for b in mono if b[0] == "sym"})


def evaluate(S, point):
    """exact value of a scalar normal form at an assignment atom -> 3-tuple of ints (the polynomial-identity test that decides equality
    modulo the Gram / Pluecker syzygies: a nonzero value at one point proves the two expressions differ as functions)"""
    def dot(a, b):
        return sum(x * y for x, y in zip(a, b))

    def det(a, b, c):
        return (a[0] * (b[1] * c[2] - b[2] * c[1]) - a[1] * (b[0] * c[2] - b[2] * c[0]) + a[2] * (b[0] * c[1] - b[1] * c[0]))
    tot = 0
    for mono, coef in S.items():
        v = coef
        for b in mono:
            if b[0] == "sym":
                v *= point[("sym", b[1])]
                continue
            vs = [point[a] for a in b[1:]]
            v *= dot(*vs) if b[0] == "dot" else det(*vs)
        tot += v
    return tot


def same_function(A, B, trials=6):
    """-> (True, None) if the normal forms agree or the difference vanishes at `trials` integer points (identity modulo syzygies with
    overwhelming probability, deterministic points); (False, point) with a witness point otherwise"""
    D = sadd(A, B, -1)
    if not D:
        return True, None
    names = atoms_of(D)
    seed = 12345
    for _ in range(trials):
        pt = {}
        for n in names:
            vec = []
            for _k in range(3):
                seed = (seed * 1103515245 + 12345) % (2 ** 31)
                vec.append(seed % 19 - 9)
            pt[n] = tuple(vec)
        for n in syms_of(D):
            seed = (seed * 1103515245 + 12345) % (2 ** 31)
            pt[("sym", n)] = seed % 7 + 2
        if evaluate(D, pt) != 0:
            return False, pt
    return True, None


def show(S):
    def b(x):
        if x[0] == "sym":
            return x[1]
        return ("(" + ".".join(x[1:]) + ")") if x[0] == "dot" else ("[" + ",".join(x[1:]) + "]")
    def c(v):
        v = Fraction(v)
        return ("+" if v > 0 else "-") + (str(abs(v.numerator)) if v.denominator == 1 else f"{abs(v.numerator)}/{v.denominator}")
    return " ".join(f"{c(v)}*{''.join(b(x) for x in k)}" for k, v in sorted(S.items())) or "0"
