"""K1/K4: reaching definitions over the CFG, def-use chains, backward data slices."""
from __future__ import annotations

import ast

from .cfg import CFG, Node
from .core import dotted


def _target_names(t, strong, weak):
    if isinstance(t, ast.Name):
        strong.add(t.id)
    elif isinstance(t, (ast.Tuple, ast.List)):
        for e in t.elts:
            _target_names(e, strong, weak)
    elif isinstance(t, ast.Starred):
        _target_names(t.value, strong, weak)
    elif isinstance(t, (ast.Subscript, ast.Attribute)):
        b = t
        while isinstance(b, (ast.Subscript, ast.Attribute)):
            b = b.value
        if isinstance(b, ast.Name):
            weak.add(b.id)


def _loads(node) -> set[str]:
    return {n.id for n in ast.walk(node) if isinstance(n, ast.Name) and isinstance(n.ctx, ast.Load)}


def defs_uses(n: Node):
    """(strong defs, weak defs, uses) of a CFG node."""
    strong, weak, uses = set(), set(), set()
    a = n.ast
    if n.kind == "entry" or a is None:
        return strong, weak, uses
    if n.kind == "test":
        uses |= _loads(a)
        for w in ast.walk(a):
            if isinstance(w, ast.NamedExpr):
                strong.add(w.target.id)
        return strong, weak, uses
    if n.kind == "iter":
        _target_names(a.target, strong, weak)
        uses |= _loads(a.iter)
        return strong, weak, uses
    if n.kind == "with":
        for it in a.items:
            uses |= _loads(it.context_expr)
            if it.optional_vars is not None:
                _target_names(it.optional_vars, strong, weak)
        return strong, weak, uses
    if n.kind == "except":
        if a.name:
            strong.add(a.name)
        return strong, weak, uses
    if isinstance(a, ast.Assign):
        for t in a.targets:
            _target_names(t, strong, weak)
            if isinstance(t, (ast.Subscript, ast.Attribute)):
                uses |= _loads(t)
        uses |= _loads(a.value)
    elif isinstance(a, ast.AugAssign):
        _target_names(a.target, strong, weak)
        uses |= _loads(a.target) | _loads(a.value)
        if isinstance(a.target, ast.Name):
            uses.add(a.target.id)
    elif isinstance(a, ast.AnnAssign):
        if a.value is not None:
            _target_names(a.target, strong, weak)
            uses |= _loads(a.value)
    elif isinstance(a, (ast.FunctionDef, ast.AsyncFunctionDef, ast.ClassDef)):
        strong.add(a.name)
        uses |= _loads(a)
    elif isinstance(a, (ast.Import, ast.ImportFrom)):
        for al in a.names:
            strong.add((al.asname or al.name).split(".")[0])
    elif isinstance(a, ast.Delete):
        pass
    else:
        uses |= _loads(a)
        # method calls with in-place effect on a local are weak defs: x.append(..), x.extend(..)
        for w in ast.walk(a):
            if isinstance(w, ast.Call) and isinstance(w.func, ast.Attribute) and isinstance(w.func.value, ast.Name) \
                    and w.func.attr in ("append", "extend", "insert", "update", "add", "fill", "sort"):
                weak.add(w.func.value.id)
    for w in ast.walk(a):
        if isinstance(w, ast.NamedExpr):
            strong.add(w.target.id)
    return strong, weak, uses


class ReachingDefs:
    def __init__(self, cfg: CFG):
        self.cfg = cfg
        self.du = {n.id: defs_uses(n) for n in cfg.nodes}
        fn = cfg.fn
        params = set()
        if hasattr(fn, "args"):
            a = fn.args
            params = {x.arg for x in a.posonlyargs + a.args + a.kwonlyargs}
            if a.vararg:
                params.add(a.vararg.arg)
            if a.kwarg:
                params.add(a.kwarg.arg)
        self.params = params
        # definitions: (node id, name); params defined at entry
        gen = {}
        for n in cfg.nodes:
            s, w, _ = self.du[n.id]
            gen[n.id] = {(n.id, x) for x in s | w}
        gen[cfg.entry.id] = {(cfg.entry.id, p) for p in params}
        self.IN = {n.id: set() for n in cfg.nodes}
        self.OUT = {n.id: set(gen[n.id]) for n in cfg.nodes}
        work = list(cfg.nodes)
        while work:
            n = work.pop(0)
            new_in = set()
            for p, _ in n.pred:
                new_in |= self.OUT[p.id]
            s, w, _ = self.du[n.id]
            out = gen[n.id] | {d for d in new_in if d[1] not in s}
            if new_in != self.IN[n.id] or out != self.OUT[n.id]:
                self.IN[n.id] = new_in
                self.OUT[n.id] = out
                for m, _ in n.succ:
                    if m not in work:
                        work.append(m)

    def defs_reaching(self, node: Node, name: str) -> list[Node]:
        return [self.cfg.nodes[i] for (i, x) in self.IN[node.id] if x == name]

    def uses(self, node):
        return self.du[node.id][2]

    def backward_slice(self, node: Node, names=None, stop=lambda n: False, control=False):
        """Def nodes (transitively) feeding `names` (default: all uses) at `node`; with control=True the
        tests the visited nodes are control dependent on are followed too.
        Returns (set of nodes incl. `node`, set of (param names reached))."""
        from .cfg import control_deps
        cd = control_deps(self.cfg) if control else None
        seen = {node.id}
        params_hit = set()
        work = [(node, set(names) if names is not None else set(self.uses(node)))]
        while work:
            n, ns = work.pop()
            if cd is not None:
                for (tid, lab) in cd[n.id]:
                    if tid not in seen:
                        seen.add(tid)
                        tn = self.cfg.nodes[tid]
                        work.append((tn, set(self.uses(tn))))
            for x in ns:
                for d in self.defs_reaching(n, x):
                    if d is self.cfg.entry:
                        params_hit.add(x)
                        continue
                    if d.id in seen or stop(d):
                        continue
                    seen.add(d.id)
                    work.append((d, set(self.uses(d))))
        return {self.cfg.nodes[i] for i in seen}, params_hit

    def attr_reads_in(self, nodes) -> set[str]:
        out = set()
        for n in nodes:
            if n.ast is None:
                continue
            for w in ast.walk(n.ast):
                if isinstance(w, ast.Attribute) and isinstance(w.ctx, ast.Load):
                    d = dotted(w)
                    if d:
                        out.add(d)
        return out
