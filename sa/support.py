"""K10 polynomial-support abstraction of kinematic expressions and its derivative operators.

Abstract value of an expression: its *support*, the set of monomials it can contain, a monomial being the multiset of the
kinematic atoms (callable attributes such as r_OJ1, A_IJ2, Omega1, n, t1t2, ...) and data attributes (radius1, r, A, dist)
that are multiplied in one additive term.  Coefficients, signs, index placement and the kind of product (dot, cross, einsum)
are abstracted away.  + - stacking -> union, every product -> pairwise multiset sum, unary linear helpers -> identity,
non-polynomial use of atoms (norm, arctan of atoms) -> TOP (no claim).

For a primal F with support S(F) the supports of its derivatives follow from Leibniz' rule on monomials:
   D_q(m) = { m - a + a_q  : a in m depends on q, a_q a q-companion of a }
   D_u(m) = { m - a + a_u  : a in m depends on u }
   D_t(m) = { m - a + da   : a in m depends on time }   with da the time companion (r -> v, v -> a, Omega -> Psi, n -> n_dot,
                                                         a director basis A_IJk gains the factor Omegak, ...)
The rule  S(F_x code) == D_x(S(F code))  is checked per pair; a monomial that is expected but absent is a missing chain-rule
term, a monomial that is present but not expected is a term with a wrong factor (e.g. the other body's angular velocity).
Necessary condition unless two expected monomials cancel identically (not the case for any pair armed here; confirmed by the
exact match on the pinned tree).
"""
from __future__ import annotations

import ast
import re

from .core import dotted, norm_src, walk_no_nested
from .protocol import ClassView

TOP = None
ONE = frozenset({()})
IGNORE_ATTR = re.compile(r"^(_?n[qu][12]?|_n[qu]|nla_\w+|n[qu]|name|xi[12]?|subsystem[12]?|frame)$")
FORCE_PARAMS = ("la_g", "la_N", "la_F", "la_c", "la_gamma")


def mul(A, B):
    if A is TOP or B is TOP:
        return TOP
    out = set()
    for a in A:
        for b in B:
            out.add(tuple(sorted(a + b)))
    return frozenset(out) if len(out) <= 600 else TOP


def uni(A, B):
    if A is TOP or B is TOP:
        return TOP
    return frozenset(A | B)


class Support:
    def __init__(self, view: ClassView, body, selfname="self", depth=0):
        self.view, self.fn, self.sn, self.depth = view, body, selfname, depth
        self.env = {}
        self.result = frozenset()
        self.top_reason = None

    def kind(self, name):
        return self.view.kind(name)

    def ev(self, e):
        if isinstance(e, ast.Constant):
            return ONE
        if isinstance(e, ast.Name):
            if e.id in self.env:
                return self.env[e.id]
            if e.id in FORCE_PARAMS:
                return frozenset({(e.id,)})
            return ONE
        if isinstance(e, ast.Attribute):
            if e.attr == "T":
                return self.ev(e.value)
            if isinstance(e.value, ast.Name) and e.value.id == self.sn:
                k = self.kind(e.attr)
                if k == "data" and not IGNORE_ATTR.match(e.attr):
                    return frozenset({(e.attr,)})
                return ONE
            if e.attr in ("dtype", "shape", "size"):
                return ONE
            return ONE
        if isinstance(e, ast.UnaryOp):
            return self.ev(e.operand)
        if isinstance(e, ast.BinOp):
            a, b = self.ev(e.left), self.ev(e.right)
            if isinstance(e.op, (ast.Add, ast.Sub)):
                return uni(a, b)
            if isinstance(e.op, (ast.Mult, ast.MatMult)):
                return mul(a, b)
            if isinstance(e.op, ast.Div):
                if b == ONE:
                    return a
                # division by a pure data quantity keeps the support (coefficient); by kinematic atoms -> TOP
                if b is not TOP and all(all(self.kind(x) == "data" for x in m) for m in b):
                    return a
                self.top_reason = f"division by {norm_src(e.right)}"
                return TOP
            if isinstance(e.op, ast.Pow):
                if isinstance(e.right, ast.Constant) and e.right.value == 2:
                    return mul(a, a)
                if a == ONE:
                    return ONE
                if a is not TOP and all(all(self.kind(x) == "data" for x in m) for m in a):
                    return a
                self.top_reason = f"power {norm_src(e)}"
                return TOP
            return TOP
        if isinstance(e, ast.Subscript):
            return self.ev(e.value)
        if isinstance(e, (ast.List, ast.Tuple)):
            out = frozenset()
            for x in e.elts:
                out = uni(out, self.ev(x))
            return out
        if isinstance(e, ast.Starred):
            return self.ev(e.value)
        if isinstance(e, ast.IfExp):
            return uni(self.ev(e.body), self.ev(e.orelse))
        if isinstance(e, ast.Call):
            f = dotted(e.func) or ""
            last = f.split(".")[-1]
            if not f and isinstance(e.func, ast.Attribute) and e.func.attr in ("reshape", "transpose", "copy", "sum", "astype", "flatten", "ravel", "squeeze"):
                return self.ev(e.func.value)  # method call on an expression: (...).reshape(...)
            if isinstance(e.func, ast.Attribute) and isinstance(e.func.value, ast.Name) and e.func.value.id == self.sn:
                nm = e.func.attr
                k = self.kind(nm)
                if k in ("lambda", "method", "alias"):
                    return frozenset({(nm,)})
                if e.args and all(isinstance(a, ast.Name) and a.id == "t" for a in e.args) and not e.keywords:
                    return frozenset({(nm,)})       # a user-supplied function of time only (self.force(t)): a datum for q and u
                self.top_reason = f"call of unknown self.{nm}"
                return TOP
            if last in ("zeros", "zeros_like", "empty"):
                return frozenset()
            if last in ("eye", "ones", "ax2skew_a", "arange"):
                return ONE
            if last in ("cross3", "outer", "dot", "cross", "einsum", "multiply", "matmul"):
                out = ONE
                for a in e.args:
                    if isinstance(a, ast.Constant) and isinstance(a.value, str):
                        continue
                    out = mul(out, self.ev(a))
                return out
            if last in ("ax2skew", "array", "hstack", "vstack", "concatenate", "asarray", "reshape", "transpose", "copy", "squeeze", "atleast_1d", "atleast_2d",
                        "skew2ax", "diag", "sum", "trace"):
                if isinstance(e.func, ast.Attribute) and not f.startswith("np.") and last in ("reshape", "transpose", "copy", "sum"):
                    return self.ev(e.func.value)
                return self.ev(e.args[0]) if e.args else ONE
            if last in ("norm", "sqrt", "arctan", "sin", "cos", "arccos", "abs"):
                a = self.ev(e.args[0]) if e.args else ONE
                if a == ONE:
                    return ONE
                self.top_reason = f"non-polynomial {last}(...)"
                return TOP
            if last in ("common_type", "enumerate", "range", "len", "float", "int"):
                return ONE
            self.top_reason = f"call {f}"
            return TOP
        if isinstance(e, ast.Compare):
            return ONE
        return TOP

    def run(self):
        if isinstance(self.fn, ast.Lambda):
            return self.ev(self.fn.body)
        self._block(self.fn.body)
        return self.result

    def _block(self, stmts):
        for s in stmts:
            if isinstance(s, ast.Assign):
                for t in s.targets:
                    self._store(t, s.value, False)
            elif isinstance(s, ast.AugAssign):
                if isinstance(s.op, (ast.Add, ast.Sub)):
                    self._store(s.target, s.value, True)
                else:
                    b = s.target
                    while isinstance(b, ast.Subscript):
                        b = b.value
                    if isinstance(b, ast.Name):
                        v = self.ev(s.value)
                        cur = self.env.get(b.id, ONE)
                        self.env[b.id] = mul(cur, v) if isinstance(s.op, ast.Mult) else (cur if v == ONE else TOP)
            elif isinstance(s, ast.If):
                self._block(s.body)
                self._block(s.orelse)
            elif isinstance(s, (ast.For, ast.While)):
                if isinstance(s, ast.For):
                    for n in ast.walk(s.target):
                        if isinstance(n, ast.Name):
                            self.env[n.id] = ONE
                self._block(s.body)
                self._block(s.body)
            elif isinstance(s, ast.Return) and s.value is not None:
                self.result = uni(self.result, self.ev(s.value))

    def _store(self, t, value, aug):
        if isinstance(t, ast.Name):
            v = self.ev(value)
            self.env[t.id] = uni(self.env.get(t.id, frozenset()), v) if aug else v
        elif isinstance(t, (ast.Tuple, ast.List)):
            if isinstance(value, (ast.Tuple, ast.List)) and len(value.elts) == len(t.elts):
                for a, b in zip(t.elts, value.elts):
                    self._store(a, b, aug)
            else:
                v = self.ev(value)
                for a in t.elts:
                    if isinstance(a, ast.Name):
                        self.env[a.id] = v
        elif isinstance(t, ast.Subscript):
            b = t
            while isinstance(b, ast.Subscript):
                b = b.value
            if isinstance(b, ast.Name):
                self.env[b.id] = uni(self.env.get(b.id, frozenset()), self.ev(value))


def support_of(view, name):
    """support of callable `name` of the class (union over its definitions); TOP if not polynomial."""
    bodies = view.bodies(name)
    if not bodies:
        # alias store (self.gamma_F = self.__gamma_F)
        for (c, s) in view.stores(name):
            if s.kind == "alias" and isinstance(s.value.value, ast.Name):
                return support_of(view, s.value.attr)
        return TOP, "no body"
    out = frozenset()
    reason = None
    for (c, b, kind, sn) in bodies:
        sp = Support(view, b, sn)
        r = sp.run()
        if r is TOP:
            return TOP, sp.top_reason
        out = uni(out, r)
    return out, reason


# ------------------------------------------------------------------ derivative operators
def sig_params(view, atom):
    ps = set()
    for (c, b, kind, sn) in view.bodies(atom):
        a = b.args
        ps |= {x.arg for x in a.args}
    if not view.bodies(atom):
        for (c, s) in view.stores(atom):
            if s.kind == "alias":
                # alias to a subsystem/frame method: parameters unknown -> assume (t) only for *_t__ style, else unknown
                return None
    return ps


T_RULES = [
    (r"^r_O(\w+)$", r"v_\1"), (r"^v_(\w+)$", r"a_\1"), (r"^Omega(\d?)$", r"Psi\1"), (r"^n$", "n_dot"), (r"^n_dot$", "n_ddot"),
    (r"^t1t2$", "t1t2_dot"), (r"^t1t2_dot$", "t1t2_ddot"), (r"^Omega_F_tilde$", "Psi_F_tilde"),
]
T_GAIN = [(r"^A_IJ(\d)$", r"Omega\1"), (r"^A_IB(\d?)$", r"Omega\1")]
U_RULES = [(r"^v_J(\d)$", r"J_J\1"), (r"^v_C(\d)$", r"J_C\1"), (r"^v_P(\d?)$", r"J_P\1"), (r"^Omega$", "J_R"), (r"^Omega(\d)$", [r"J_R\1", r"J\1_R"]),
           (r"^a_(\w+?)(\d?)$", r"a_\1\2_u\2"), (r"^Psi(\d?)$", r"Psi\1_u\1")]
Q_SUFFIX = ["_q", "_q1", "_q2", "_q1_q2"]


def _exists(view, name):
    return view.kind(name) in ("lambda", "method", "alias")


def q_companions(view, a):
    ps = sig_params(view, a)
    if ps is not None and "q" not in ps:
        return []
    m = re.search(r"([12])$", a)
    cands = []
    if m:
        cands.append(f"{a}_q{m.group(1)}")
    m2 = re.match(r"^J([12])_R$", a)
    if m2:
        cands.append(f"{a}_q{m2.group(1)}")
    cands += [a + s for s in Q_SUFFIX]
    out = []
    for c in cands:
        if _exists(view, c) and c not in out:
            out.append(c)
    # a body-indexed atom only has the companion of its own body
    if m or m2:
        own = [c for c in out if c.endswith("_q" + (m or m2).group(1))]
        if own:
            return own
    return out


def u_companions(view, a):
    ps = sig_params(view, a)
    if ps is not None and "u" not in ps:
        return []
    out = []
    for pat, rep in U_RULES:
        m = re.match(pat, a)
        if m:
            for r in (rep if isinstance(rep, list) else [rep]):
                c = m.expand(r)
                c = c.replace("_u_", "_u").rstrip("_") if c.endswith("_u") or "_u" in c else c
                if _exists(view, c):
                    out.append(c)
    # a_P -> a_P_u ; Psi -> Psi_u
    for c in (a + "_u",):
        if _exists(view, c) and c not in out:
            out.append(c)
    return out


def t_companions(view, a):
    """list of replacement tuples for atom a under d/dt ([] = time independent, None = unknown)."""
    if view.kind(a) == "data":
        return []
    for pat, rep in T_GAIN:
        m = re.match(pat, a)
        if m:
            c = m.expand(rep)
            if _exists(view, c):
                return [(a, c)]
            return None
    for pat, rep in T_RULES:
        m = re.match(pat, a)
        if m:
            c = m.expand(rep)
            if _exists(view, c):
                return [(c,)]
            return None
    ps = sig_params(view, a)
    if ps is not None and not (ps & {"t", "q", "u"}):
        return []
    return None


def D(view, S, mode):
    """derivative support; returns (set, unknown_atoms)."""
    out = set()
    unknown = set()
    for m in S:
        for i, a in enumerate(m):
            if a in FORCE_PARAMS:
                continue
            rest = m[:i] + m[i + 1:]
            if mode == "q":
                comps = [(c,) for c in q_companions(view, a)] if view.kind(a) != "data" else []
            elif mode == "u":
                comps = [(c,) for c in u_companions(view, a)] if view.kind(a) != "data" else []
            else:
                comps = t_companions(view, a)
                if comps is None:
                    unknown.add(a)
                    continue
            for c in comps:
                out.add(tuple(sorted(rest + c)))
    return frozenset(out), unknown


def check(rep, rule, view, C, rel, primal, deriv, mode, extra=None, lineno=0, zero=()):
    """S(deriv) == D_mode(S(primal) [* extra]).  Monomials containing an atom in `zero` (quantities that vanish under the
    property's premise) are compared too, but a deviation in them is a note, not a finding."""
    Sp, why = support_of(view, primal)
    Sd, why2 = support_of(view, deriv)
    if Sp is TOP or Sd is TOP:
        rep.note(f"{rule}: {C}: support not polynomial ({why or why2}); pair ({primal} -> {deriv}) not decided")
        return None
    if extra:
        Sp = mul(Sp, frozenset({(extra,)}))
    exp, unknown = D(view, Sp, mode)
    if unknown:
        rep.note(f"{rule}: {C}: no time companion known for {sorted(unknown)}; pair ({primal} -> {deriv}) decided without these factors")
    missing = sorted(exp - Sd)
    extra_m = sorted(Sd - exp)
    if zero:
        # deviations that only concern monomials vanishing under the property's premise are reported as notes
        z = set(zero)
        out_m = [m for m in missing if set(m) & z]
        out_e = [m for m in extra_m if set(m) & z]
        missing = [m for m in missing if not (set(m) & z)]
        extra_m = [m for m in extra_m if not (set(m) & z)]
        for m in out_m:
            rep.note(f"{rule}: {C}: outside the property's premise ({', '.join(sorted(set(m) & z))} = 0): `{deriv}` lacks the term ({', '.join(m)}) of d/d{mode} {primal}")
        for m in out_e:
            rep.note(f"{rule}: {C}: outside the property's premise: `{deriv}` has the extra term ({', '.join(m)})")
    label = {"q": "d/dq", "u": "d/du", "t": "d/dt"}[mode]
    if not missing and not extra_m:
        rep.ok(rule, C, f"{label} {primal}: {len(exp)} monomials, all present and no other")
        return True
    for m in missing[:4]:
        rep.bad(rule, C, f"{label} {primal}: monomial {' * '.join(m)}", f"the {label} of `{primal}` contains a term with the factors ({', '.join(m)}) "
                f"(Leibniz rule on `{primal}`'s terms) but `{deriv}` has no term with these factors", f"{rel}:{lineno}")
    for m in extra_m[:4]:
        rep.bad(rule, C, f"{label} {primal}: unexpected monomial {' * '.join(m)}", f"`{deriv}` contains a term with the factors ({', '.join(m)}) that no term of the "
                f"{label} of `{primal}` has (a factor of the wrong body / wrong kind)", f"{rel}:{lineno}")
    return False
