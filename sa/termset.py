"""K7 term sets: which System force/constraint families flow into an expression of a solver.

resolve(expr) follows local single/multiple assignments inside the function and `self.X` stores inside the solver
class (e.g. self.W_gn = system.W_g(...)) down to calls `<...>system.<method>(...)` and returns the set of method names.
"""
from __future__ import annotations

import ast

from .core import dotted, norm_src, walk_no_nested


def is_system_call(n):
    """Call node of the form system.X(...) / self.system.X(...) -> X else None."""
    if isinstance(n, ast.Call) and isinstance(n.func, ast.Attribute):
        d = dotted(n.func.value) or ""
        if d.split(".")[-1] == "system":
            return n.func.attr
    return None


class Resolver:
    def __init__(self, fn, cls_node=None):
        self.fn = fn
        self.cls_node = cls_node
        self.local = {}
        for n in walk_no_nested(fn):
            if isinstance(n, ast.Assign):
                for t in n.targets:
                    self._bind(t, n.value)
            elif isinstance(n, ast.AugAssign) and isinstance(n.target, ast.Name):
                self.local.setdefault(n.target.id, []).append(n.value)
        self.attrs = {}
        if cls_node is not None:
            for m in cls_node.body:
                if isinstance(m, ast.FunctionDef):
                    for n in walk_no_nested(m):
                        if isinstance(n, ast.Assign):
                            for t in n.targets:
                                for e in (t.elts if isinstance(t, (ast.Tuple, ast.List)) else [t]):
                                    if isinstance(e, ast.Attribute) and isinstance(e.value, ast.Name) and e.value.id == "self":
                                        self.attrs.setdefault(e.attr, []).append(n.value if e is t else None)

    def _bind(self, t, v):
        if isinstance(t, ast.Name):
            self.local.setdefault(t.id, []).append(v)
        elif isinstance(t, (ast.Tuple, ast.List)):
            if isinstance(v, (ast.Tuple, ast.List)) and len(v.elts) == len(t.elts):
                for a, b in zip(t.elts, v.elts):
                    self._bind(a, b)
            else:
                for a in t.elts:
                    self._bind(a, v)

    OPAQUE = {"solve", "prox", "compute_I_F", "array_split", "fsolve", "splu", "estimate_prox_parameter", "copy",
              "_solve_nonlinear_system", "_iterative_projection_method", "step", "zeros", "zeros_like", "ones", "isclose", "where",
              "min", "max", "len", "range", "print", "cumsum"}

    def _walk(self, expr):
        """ast.walk that skips subscript indices and the arguments of opaque calls (solvers, projections, ...)."""
        stack = [expr]
        while stack:
            n = stack.pop()
            yield n
            if isinstance(n, ast.Subscript):
                stack.append(n.value)
                continue
            if isinstance(n, ast.Call):
                nm = (dotted(n.func) or "").split(".")[-1]
                if nm in self.OPAQUE and is_system_call(n) is None:
                    continue
            stack.extend(ast.iter_child_nodes(n))

    def families(self, expr, depth=0, seen=None):
        seen = seen if seen is not None else set()
        out = set()
        if depth > 6 or expr is None:
            return out
        for n in self._walk(expr):
            m = is_system_call(n)
            if m:
                out.add(m)
            elif isinstance(n, ast.Name) and isinstance(n.ctx, ast.Load) and n.id in self.local and ("L", n.id) not in seen:
                seen.add(("L", n.id))
                for v in self.local[n.id]:
                    out |= self.families(v, depth + 1, seen)
            elif isinstance(n, ast.Attribute) and isinstance(n.value, ast.Name) and n.value.id == "self" and n.attr in self.attrs \
                    and ("A", n.attr) not in seen:
                seen.add(("A", n.attr))
                for v in self.attrs[n.attr]:
                    if v is not None:
                        out |= self.families(v, depth + 1, seen)
        return out

    def system_calls(self, expr, depth=0, seen=None):
        """[(method, call node)] flowing into expr (same resolution as families)."""
        seen = seen if seen is not None else set()
        out = []
        if depth > 6 or expr is None:
            return out
        for n in self._walk(expr):
            m = is_system_call(n)
            if m:
                out.append((m, n))
            elif isinstance(n, ast.Name) and isinstance(n.ctx, ast.Load) and n.id in self.local and ("L", n.id) not in seen:
                seen.add(("L", n.id))
                for v in self.local[n.id]:
                    out += self.system_calls(v, depth + 1, seen)
            elif isinstance(n, ast.Attribute) and isinstance(n.value, ast.Name) and n.value.id == "self" and n.attr in self.attrs \
                    and ("A", n.attr) not in seen:
                seen.add(("A", n.attr))
                for v in self.attrs[n.attr]:
                    if v is not None:
                        out += self.system_calls(v, depth + 1, seen)
        return out


def additive_sites(fn):
    """maximal +/- expression trees in fn (each returned once)."""
    sites = []
    for n in walk_no_nested(fn):
        if isinstance(n, ast.BinOp) and isinstance(n.op, (ast.Add, ast.Sub)):
            p = getattr(n, "_parent", None)
            # climb through parentheses-free arithmetic that keeps additivity: unary minus, multiplication by scalars
            if isinstance(p, ast.BinOp) and isinstance(p.op, (ast.Add, ast.Sub)):
                continue
            sites.append(n)
    return sites


def eom_sites(fn, res: Resolver):
    """additive expressions that contain the applied forces h (the equations of motion), outermost only."""
    out = []
    for s in additive_sites(fn):
        fam = res.families(s)
        if "h" in fam:
            # keep outermost: skip if an ancestor additive site also contains h
            p = getattr(s, "_parent", None)
            inner = False
            while p is not None and p is not fn:
                if isinstance(p, ast.BinOp) and isinstance(p.op, (ast.Add, ast.Sub)) and "h" in res.families(p):
                    inner = True
                    break
                p = getattr(p, "_parent", None)
            if not inner:
                out.append((s, fam))
    return out
