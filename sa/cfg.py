"""K1: statement-level control-flow graph over `ast`, dominators, path queries.

Nodes:
  kind 'entry' / 'exit' (normal return or fall-off) / 'raise' (exceptional exit)
  kind 'stmt'  : simple statement (Assign, Expr, Return, Raise, Pass, Import, ...)
  kind 'test'  : If/While test or Assert test  (out-edges labelled True/False)
  kind 'iter'  : For header                      (out-edges 'body'/'exit')
  kind 'with'  : With header
  kind 'except': handler entry
Edges carry a label (True/False/'body'/'exit'/'exc'/None).
"""
from __future__ import annotations

import ast


class Node:
    __slots__ = ("id", "kind", "ast", "succ", "pred", "owner")

    def __init__(self, nid, kind, node=None, owner=None):
        self.id = nid
        self.kind = kind
        self.ast = node  # the test expr for 'test', the stmt otherwise
        self.owner = owner  # owning statement (If/While/Assert/For) for test/iter nodes
        self.succ: list[tuple["Node", object]] = []
        self.pred: list[tuple["Node", object]] = []

    @property
    def lineno(self):
        a = self.owner if self.owner is not None else self.ast
        return getattr(a, "lineno", 0)

    def __repr__(self):
        src = ""
        if self.ast is not None:
            try:
                src = ast.unparse(self.ast).split("\n")[0][:60]
            except Exception:
                src = type(self.ast).__name__
        return f"<{self.id}:{self.kind} L{self.lineno} {src}>"


class CFG:
    def __init__(self, fn: ast.FunctionDef):
        self.fn = fn
        self.nodes: list[Node] = []
        self.entry = self._new("entry")
        self.exit = self._new("exit")
        self.raise_exit = self._new("raise")
        self._loops: list[tuple[Node, Node]] = []  # (continue target, break target)
        self._handlers: list[list[Node]] = []  # stack of active handler entry nodes
        self._finally: list = []
        ends = self._block(fn.body, [(self.entry, None)])
        for n, lab in ends:
            self._edge(n, self.exit, lab)
        self.by_ast: dict[int, Node] = {}
        for n in self.nodes:
            key = n.owner if n.owner is not None else n.ast
            if key is not None:
                self.by_ast.setdefault(id(key), n)

    # -- construction ---------------------------------------------------------
    def _new(self, kind, node=None, owner=None):
        n = Node(len(self.nodes), kind, node, owner)
        self.nodes.append(n)
        return n

    def _edge(self, a, b, label=None):
        a.succ.append((b, label))
        b.pred.append((a, label))

    def _connect(self, frontier, node):
        for n, lab in frontier:
            self._edge(n, node, lab)

    def _may_raise_to_handlers(self, node):
        # any statement inside a try body may transfer to the active handlers
        if self._handlers:
            for h in self._handlers[-1]:
                self._edge(node, h, "exc")

    def _block(self, stmts, frontier):
        """frontier: list[(node,label)] dangling edges.  Returns new frontier."""
        for s in stmts:
            if not frontier:
                break  # unreachable code
            frontier = self._stmt(s, frontier)
        return frontier

    def _stmt(self, s, frontier):
        if isinstance(s, ast.If):
            t = self._new("test", s.test, s)
            self._connect(frontier, t)
            self._may_raise_to_handlers(t)
            a = self._block(s.body, [(t, True)])
            b = self._block(s.orelse, [(t, False)]) if s.orelse else [(t, False)]
            return a + b
        if isinstance(s, ast.While):
            t = self._new("test", s.test, s)
            self._connect(frontier, t)
            self._may_raise_to_handlers(t)
            brk = self._new("join", None, s)
            self._loops.append((t, brk))
            body_end = self._block(s.body, [(t, True)])
            self._loops.pop()
            self._connect(body_end, t)
            is_true = isinstance(s.test, ast.Constant) and bool(s.test.value) is True
            out = [] if is_true else [(t, False)]
            if s.orelse:
                out = self._block(s.orelse, out)
            res = list(out)
            if brk.pred:
                res.append((brk, None))
            return res
        if isinstance(s, (ast.For, ast.AsyncFor)):
            h = self._new("iter", s, s)
            self._connect(frontier, h)
            self._may_raise_to_handlers(h)
            brk = self._new("join", None, s)
            self._loops.append((h, brk))
            body_end = self._block(s.body, [(h, "body")])
            self._loops.pop()
            self._connect(body_end, h)
            out = [(h, "exit")]
            if s.orelse:
                out = self._block(s.orelse, out)
            res = list(out)
            if brk.pred:
                res.append((brk, None))
            return res
        if isinstance(s, ast.Break):
            n = self._new("stmt", s)
            self._connect(frontier, n)
            self._edge(n, self._loops[-1][1])
            return []
        if isinstance(s, ast.Continue):
            n = self._new("stmt", s)
            self._connect(frontier, n)
            self._edge(n, self._loops[-1][0])
            return []
        if isinstance(s, ast.Return):
            n = self._new("stmt", s)
            self._connect(frontier, n)
            self._may_raise_to_handlers(n)
            if self._finally:
                # run enclosing finally blocks, then exit
                fr = [(n, None)]
                for fb in reversed(self._finally):
                    fr = self._block(fb, fr)
                self._connect(fr, self.exit)
            else:
                self._edge(n, self.exit)
            return []
        if isinstance(s, ast.Raise):
            n = self._new("stmt", s)
            self._connect(frontier, n)
            if self._handlers:
                for h in self._handlers[-1]:
                    self._edge(n, h, "exc")
                # a raise may also not be caught by the handlers
                if not self._catches_all(self._handlers[-1]):
                    self._edge(n, self.raise_exit)
            else:
                self._edge(n, self.raise_exit)
            return []
        if isinstance(s, ast.Assert):
            t = self._new("test", s.test, s)
            self._connect(frontier, t)
            if self._handlers:
                for h in self._handlers[-1]:
                    self._edge(t, h, False)
            else:
                self._edge(t, self.raise_exit, False)
            return [(t, True)]
        if isinstance(s, (ast.With, ast.AsyncWith)):
            w = self._new("with", s, s)
            self._connect(frontier, w)
            self._may_raise_to_handlers(w)
            return self._block(s.body, [(w, None)])
        if isinstance(s, ast.Try) or type(s).__name__ == "TryStar":
            hnodes = [self._new("except", h, h) for h in s.handlers]
            if s.finalbody:
                self._finally.append(s.finalbody)
            self._handlers.append(hnodes)
            body_end = self._block(s.body, frontier)
            self._handlers.pop()
            if s.orelse:
                body_end = self._block(s.orelse, body_end)
            ends = list(body_end)
            for hn, h in zip(hnodes, s.handlers):
                ends += self._block(h.body, [(hn, None)])
            if s.finalbody:
                self._finally.pop()
                ends = self._block(s.finalbody, ends)
            return ends
        if isinstance(s, ast.Match):
            m = self._new("test", s.subject, s)
            self._connect(frontier, m)
            ends = []
            for i, c in enumerate(s.cases):
                ends += self._block(c.body, [(m, ("case", i))])
            ends.append((m, ("case", None)))
            return ends
        # simple statement (incl. nested def/class, which we treat as opaque)
        n = self._new("stmt", s)
        self._connect(frontier, n)
        self._may_raise_to_handlers(n)
        return [(n, None)]

    @staticmethod
    def _catches_all(hnodes):
        for h in hnodes:
            t = h.ast.type
            if t is None:
                return True
            if isinstance(t, ast.Name) and t.id in ("Exception", "BaseException"):
                return True
        return False

    # -- queries -----------------------------------------------------------------
    def node_of(self, stmt) -> Node | None:
        return self.by_ast.get(id(stmt))

    def reachable_from(self, starts, blocked=lambda n: False, edge_ok=lambda a, b, lab: True):
        """Set of nodes reachable from the (node,label-filter) starts without entering blocked nodes.
        `starts`: iterable of Node, or of (Node, label) meaning 'only out-edges with that label'."""
        seen = set()
        stack = []
        for st in starts:
            if isinstance(st, tuple):
                n, lab = st
                for (m, l2) in n.succ:
                    if l2 == lab and edge_ok(n, m, l2):
                        stack.append(m)
            else:
                stack.append(st)
        while stack:
            n = stack.pop()
            if n.id in seen:
                continue
            if blocked(n):
                continue
            seen.add(n.id)
            for (m, lab) in n.succ:
                if edge_ok(n, m, lab):
                    stack.append(m)
        return {self.nodes[i] for i in seen}

    def can_reach(self, starts, target, blocked=lambda n: False, edge_ok=lambda a, b, lab: True) -> bool:
        return target in self.reachable_from(starts, blocked, edge_ok)

    def dominators(self):
        """dict node.id -> set of node ids that dominate it (forward)."""
        ids = [n.id for n in self.nodes]
        reach = {n.id for n in self.reachable_from([self.entry])}
        dom = {i: set(reach) for i in reach}
        dom[self.entry.id] = {self.entry.id}
        changed = True
        order = [i for i in ids if i in reach]
        while changed:
            changed = False
            for i in order:
                if i == self.entry.id:
                    continue
                preds = [p.id for p, _ in self.nodes[i].pred if p.id in reach]
                if preds:
                    new = set.intersection(*(dom[p] for p in preds)) | {i}
                else:
                    new = {i}
                if new != dom[i]:
                    dom[i] = new
                    changed = True
        return dom

    def dominates(self, a: Node, b: Node):
        d = getattr(self, "_dom", None)
        if d is None:
            d = self._dom = self.dominators()
        return b.id in d and a.id in d[b.id]

    def stmts(self):
        return [n for n in self.nodes if n.kind in ("stmt", "test", "iter", "with")]

    def find_path(self, starts, target, blocked=lambda n: False, edge_ok=lambda a, b, lab: True):
        """One witness path (list of Nodes) from starts to target avoiding blocked nodes, or None."""
        prev = {}
        queue = []
        for st in starts:
            if isinstance(st, tuple):
                n, lab = st
                for (m, l2) in n.succ:
                    if l2 == lab and edge_ok(n, m, l2) and m.id not in prev:
                        prev[m.id] = n.id
                        queue.append(m)
            else:
                if st.id not in prev:
                    prev[st.id] = None
                    queue.append(st)
        while queue:
            n = queue.pop(0)
            if blocked(n):
                continue
            if n is target:
                path = [n]
                p = prev.get(n.id)
                seen = {n.id}
                while p is not None and p not in seen:
                    seen.add(p)
                    path.append(self.nodes[p])
                    p = prev.get(p)
                return list(reversed(path))
            for (m, lab) in n.succ:
                if m.id not in prev and edge_ok(n, m, lab):
                    prev[m.id] = n.id
                    queue.append(m)
        return None


def enumerate_paths(cfg: CFG, start=None, max_paths=20000, loop_visits=2):
    """All entry->(exit|raise) paths; every node may be visited at most `loop_visits` times per path."""
    start = start or cfg.entry
    out = []
    stack = [(start, [start], {start.id: 1})]
    while stack:
        n, path, cnt = stack.pop()
        if n is cfg.exit or n is cfg.raise_exit:
            out.append(path)
            if len(out) > max_paths:
                raise OverflowError("too many paths")
            continue
        for m, lab in n.succ:
            c = cnt.get(m.id, 0)
            if c >= loop_visits:
                continue
            c2 = dict(cnt)
            c2[m.id] = c + 1
            stack.append((m, path + [m], c2))
    return out


def postdominators(cfg: CFG):
    """dict node.id -> set of ids that post-dominate it (virtual exit joins exit and raise)."""
    VX = -1
    ids = [n.id for n in cfg.nodes]
    succ = {n.id: [m.id for m, _ in n.succ] for n in cfg.nodes}
    succ[cfg.exit.id] = [VX]
    succ[cfg.raise_exit.id] = [VX]
    allids = set(ids) | {VX}
    pdom = {i: set(allids) for i in ids}
    pdom[VX] = {VX}
    changed = True
    while changed:
        changed = False
        for i in reversed(ids):
            ss = succ[i]
            if ss:
                new = set.intersection(*(pdom[s] for s in ss)) | {i}
            else:
                new = {i}  # dead end (unreachable continuation)
            if new != pdom[i]:
                pdom[i] = new
                changed = True
    return pdom


def control_deps(cfg: CFG):
    """dict node.id -> set of (test node id, label) it is control dependent on (Ferrante et al.)."""
    pd = getattr(cfg, "_pdom", None)
    if pd is None:
        pd = cfg._pdom = postdominators(cfg)
    out = {n.id: set() for n in cfg.nodes}
    for t in cfg.nodes:
        if len(t.succ) < 2:
            continue
        for s, lab in t.succ:
            # nodes that postdominate s (incl. s) but do not postdominate t
            for nid in pd[s.id]:
                if nid >= 0 and nid != t.id and nid not in (pd[t.id] - {t.id}):
                    out[nid].add((t.id, lab))
    return out
