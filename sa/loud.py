"""K3 loudness engine (C21/C23): for every convergence flag of a solver function, explore the CFG
tracking
   val   in {T,F,?}   abstract value of the flag
   cont  in {T,F,?}   abstract value of `<...>.continue_with_unconverged` as learnt from tests on the path
   loud               a raise/warn/assert happened since the flag last became possibly-false
   loudt              ... and one of the warns interpolated a time/step value into its message
and report the events at which a possibly-false flag 'escapes':
   proceed    the function falls through to its normal exit or re-enters its outermost loop
   truncated  a `return` of a Solution inside/after the time loop
   transfer   a `return` of the flag itself (obligation moves to the caller; summarised)
Callee summaries (fsolve, self._solve_nonlinear_system, self.step, ...) are computed with the same walker.
"""
from __future__ import annotations

import ast

from .cfg import CFG, Node
from .core import dotted, norm_src, enclosing

T, F, U = "T", "F", "?"
CONT_ATTR = "continue_with_unconverged"
TIME_WORDS = ("tn", "tn1", "t", "ti", "t0", "t1", "load_step", "load_steps")


def _literal_tests(expr):
    """Decompose a test into (conjunction?, [(atom_expr, positive?)...]).
    Returns (mode, atoms): mode 'and' -> atoms all hold on the True edge; mode 'or' -> atoms all fail on the False edge;
    mode 'atom' single literal (refines both edges)."""
    def lit(e):
        if isinstance(e, ast.UnaryOp) and isinstance(e.op, ast.Not):
            a, pos = lit(e.operand)
            return a, not pos
        return e, True
    if isinstance(expr, ast.BoolOp):
        atoms = [lit(v) for v in expr.values]
        return ("and" if isinstance(expr.op, ast.And) else "or"), atoms
    return "atom", [lit(expr)]


def _is_cont(e):
    return isinstance(e, ast.Attribute) and e.attr == CONT_ATTR


def warn_info(node: Node):
    """(is_loud, names_time) for a CFG statement node."""
    a = node.ast
    if a is None:
        return False, False
    if isinstance(a, ast.Raise):
        return True, True
    loud = loudt = False
    for w in ast.walk(a):
        if isinstance(w, ast.Call):
            d = dotted(w.func) or ""
            if d in ("warn", "warnings.warn") or d.endswith("warnings.warn"):
                loud = True
                for arg in w.args[:1]:
                    if isinstance(arg, ast.JoinedStr):
                        for v in arg.values:
                            if isinstance(v, ast.FormattedValue):
                                e = v.value
                                while isinstance(e, ast.Subscript):
                                    e = e.value
                                d2 = dotted(e) or ""
                                if d2.split(".")[-1] in TIME_WORDS:
                                    loudt = True
    return loud, loudt


class Summary:
    """Exit behaviour of a callee w.r.t. the flag it returns: list of (val, loud, loudt, cont)."""

    def __init__(self, exits, raises_possible=True):
        self.exits = exits

    @staticmethod
    def external_silent():
        return Summary([(U, False, False, U)])


class LoudWalk:
    def __init__(self, cfg: CFG, flag: str, summaries=None, flag_sources=None, top_loop=None):
        """flag: normalised source of the flag expression ('converged', 'sol.success').
        flag_sources: dict node.id -> Summary for nodes that assign the flag from a summarised callee."""
        self.cfg = cfg
        self.flag = flag
        self.base = flag.split(".")[0]
        self.sources = flag_sources or {}
        self.top_loop = top_loop  # CFG node of the outermost (time) loop header or None
        self.events = []  # (kind, node, state, prev_state)
        self.prev = {}
        self.states = set()
        self._run()

    # -- flag assignment ---------------------------------------------------
    def _assign(self, n: Node):
        a = n.ast
        if n.kind != "stmt" or a is None:
            return None
        if isinstance(a, ast.Assign):
            for t in a.targets:
                tl = list(t.elts) if isinstance(t, (ast.Tuple, ast.List)) else [t]
                flat = []
                for x in tl:
                    if isinstance(x, (ast.Tuple, ast.List)):
                        flat += list(x.elts)
                    else:
                        flat.append(x)
                for tt in flat:
                    s = norm_src(tt)
                    if s == self.flag or ("." in self.flag and s == self.base):
                        v = a.value
                        if len(flat) == 1:
                            if isinstance(v, ast.Constant) and v.value is True:
                                return T
                            if isinstance(v, ast.Constant) and v.value is False:
                                return F
                        return U
        return None

    def _run(self):
        cfg = self.cfg
        stack = [((cfg.entry.id, T, False, False, U), None)]
        while stack:
            st, pv = stack.pop()
            if st in self.states:
                continue
            self.states.add(st)
            self.prev[st] = pv
            nid, val, loud, loudt, cont = st
            n = cfg.nodes[nid]
            if n is cfg.raise_exit:
                continue
            if n is cfg.exit:
                if val in (F, U):
                    self.events.append(("proceed-exit", n, st))
                continue
            outs = []  # list of (val, loud, loudt, cont) after executing n
            av = self._assign(n)
            if av is not None:
                if n.id in self.sources:
                    for (v2, l2, lt2, c2) in self.sources[n.id].exits:
                        cc = cont if c2 == U else c2
                        outs.append((v2, l2, lt2, cc))
                    # plus the possibility that the flag is true
                    if not any(o[0] in (T,) for o in outs):
                        outs.append((T, False, False, cont))
                else:
                    outs.append((av, False, False, cont))
            else:
                outs.append((val, loud, loudt, cont))
            if n.kind in ("stmt", "with"):
                l, lt = warn_info(n)
                if l:
                    outs = [(v, True, (b or lt), c) for (v, a_, b, c) in outs]
                if isinstance(n.ast, ast.Return):
                    for (v, l2, lt2, c) in outs:
                        if v in (F, U):
                            val_src = norm_src(n.ast.value) if n.ast.value is not None else ""
                            names = {x.id for x in ast.walk(n.ast.value) if isinstance(x, ast.Name)} if n.ast.value is not None else set()
                            attrs = {dotted(x) for x in ast.walk(n.ast.value) if isinstance(x, ast.Attribute)} if n.ast.value is not None else set()
                            if self.base in names or self.flag in attrs:
                                self.events.append(("transfer", n, (nid, v, l2, lt2, c)))
                            elif "Solution(" in val_src or "make_solution(" in val_src:
                                self.events.append(("truncated", n, (nid, v, l2, lt2, c)))
                            else:
                                self.events.append(("return-other", n, (nid, v, l2, lt2, c)))
                    continue
            for (v, l2, lt2, c) in outs:
                if n.kind == "test":
                    self._branch(n, v, l2, lt2, c, st, stack)
                else:
                    for m, lab in n.succ:
                        self._push(m, v, l2, lt2, c, st, stack, n)

    def _push(self, m, v, l, lt, c, st, stack, frm):
        # re-entering the outermost loop header from inside the loop body == proceeding to the next step
        if self.top_loop is not None and m is self.top_loop and frm is not None and self._inside_top(frm):
            if v in (F, U):
                self.events.append(("proceed-loop", frm, (frm.id, v, l, lt, c)))
            # next iteration starts with a fresh flag
            stack.append(((m.id, T, False, False, U), st))
            return
        stack.append(((m.id, v, l, lt, c), st))

    def _inside_top(self, n: Node):
        a = n.owner if n.owner is not None else n.ast
        loop = self.top_loop.owner
        x = a
        while x is not None:
            if x is loop:
                return True
            x = getattr(x, "_parent", None)
        return False

    def _branch(self, n, v, l, lt, c, st, stack):
        mode, atoms = _literal_tests(n.ast)
        is_assert = isinstance(n.owner, ast.Assert)

        def known(e, pos, v_, c_):
            """truth of literal under the abstract state: True/False/None."""
            s = norm_src(e)
            cur = None
            if s == self.flag:
                cur = v_
            elif _is_cont(e):
                cur = c_
            else:
                return None, None
            if cur == U:
                return None, ("flag" if s == self.flag else "cont")
            atomval = cur == T
            return (atomval if pos else not atomval), ("flag" if s == self.flag else "cont")

        for m, lab in n.succ:
            if lab not in (True, False):
                self._push(m, v, l, lt, c, st, stack, n)
                continue
            if is_assert and lab is False:
                continue  # AssertionError: loud, leaves via raise_exit
            v2, c2 = v, c
            feasible = True
            # the test as a whole has truth `lab`.  conj: all literals true <=> test true (and) ; disj dual
            if mode == "atom":
                lits_must = [(atoms[0], lab)]
                free = []
            elif (mode == "and" and lab is True) or (mode == "or" and lab is False):
                lits_must = [(a_, lab) for a_ in atoms]
                free = []
            else:
                # 'and' False: at least one literal false ; 'or' True: at least one literal true
                want = lab  # the truth value that at least one literal must take
                ks = [known(e, pos, v2, c2) for (e, pos) in atoms]
                if any(k[0] is want for k in ks):
                    lits_must = []
                else:
                    unk = [(a_, k) for a_, k in zip(atoms, ks) if k[0] is None]
                    tracked_unk = [(a_, k) for a_, k in unk if k[1] is not None]
                    untracked = [a_ for a_, k in unk if k[1] is None]
                    if not unk:
                        feasible = False
                        lits_must = []
                    elif len(unk) == 1 and len(tracked_unk) == 1:
                        lits_must = [(tracked_unk[0][0], want)]
                    else:
                        lits_must = []
            for ((e, pos), truth) in lits_must:
                atomval = truth if pos else (not truth)
                s = norm_src(e)
                if s == self.flag:
                    w = T if atomval else F
                    if v2 != U and v2 != w:
                        feasible = False
                    v2 = w
                elif _is_cont(e):
                    w = T if atomval else F
                    if c2 != U and c2 != w:
                        feasible = False
                    c2 = w
            if feasible:
                self._push(m, v2, l, lt, c2, st, stack, n)

    def exit_summary(self):
        """Summary of this function as a callee: states with which the flag escapes to the caller."""
        out = set()
        for kind, n, st in self.events:
            if kind in ("transfer", "proceed-exit", "return-other"):
                _, v, l, lt, c = st
                out.add((v, l, lt, c))
        return Summary(sorted(out))

    def trace(self, st):
        path = []
        seen = set()
        while st is not None and st not in seen:
            seen.add(st)
            path.append(self.cfg.nodes[st[0]])
            st = self.prev.get(st)
        return list(reversed(path))
