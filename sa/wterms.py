"""Weighted additive expansion: expression -> [(Fraction, (atoms...))].  Numeric constants fold into an exact rational coefficient, `*` and `@`
distribute over `+` and `-`, simple locals are inlined; what counts as an atom is decided by the caller.  Used by C19 (adjoint structure of the
RATTLE step), C18.R7 (restitution coefficients of the operator form) and C17.R9."""
from __future__ import annotations

import ast
from fractions import Fraction

from .core import AnalysisError, norm_src


class Terms:
    """expression -> [(Fraction, (atoms...))]; atoms are strings; numeric constants fold into the coefficient."""

    def __init__(self, fn, atom, inline=None):
        self.atom = atom
        self.inline = inline or (lambda e: None)
        self.local = {}
        for n in ast.walk(fn):
            if isinstance(n, ast.Assign) and len(n.targets) == 1 and isinstance(n.targets[0], ast.Name):
                self.local.setdefault(n.targets[0].id, []).append(n.value)

    def expand(self, e, depth=0):
        if depth > 20:
            raise AnalysisError("C19: expression too deep")
        if isinstance(e, ast.Constant) and isinstance(e.value, (int, float)):
            return [(Fraction(e.value).limit_denominator(10**6), ())] if e.value != 0 else []
        if isinstance(e, ast.UnaryOp) and isinstance(e.op, ast.USub):
            return [(-c, f) for c, f in self.expand(e.operand, depth + 1)]
        if isinstance(e, ast.UnaryOp) and isinstance(e.op, ast.UAdd):
            return self.expand(e.operand, depth + 1)
        if isinstance(e, ast.BinOp):
            if isinstance(e.op, ast.Add):
                return self.expand(e.left, depth + 1) + self.expand(e.right, depth + 1)
            if isinstance(e.op, ast.Sub):
                return self.expand(e.left, depth + 1) + [(-c, f) for c, f in self.expand(e.right, depth + 1)]
            if isinstance(e.op, (ast.Mult, ast.MatMult)):
                L, R = self.expand(e.left, depth + 1), self.expand(e.right, depth + 1)
                return [(a * b, fa + fb) for a, fa in L for b, fb in R]
            if isinstance(e.op, ast.Div):
                R = self.expand(e.right, depth + 1)
                if len(R) == 1 and R[0][1] == () and R[0][0] != 0:
                    return [(c / R[0][0], f) for c, f in self.expand(e.left, depth + 1)]
        sub = self.inline(e)
        if sub is not None:
            return self.expand(sub, depth + 1)
        a = self.atom(e)
        if a is not None:
            return [(Fraction(1), (a,))]
        if isinstance(e, ast.Name) and len(self.local.get(e.id, [])) == 1 and not isinstance(self.local[e.id][0], ast.Call):
            return self.expand(self.local[e.id][0], depth + 1)
        return [(Fraction(1), ("?" + norm_src(e),))]
