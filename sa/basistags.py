"""K15: basis-tag typing of rotation / vector products (naming convention of the code base).

cardillo names a rotation matrix `A_XY` (maps Y-components to X-components) and a vector `X_r_PQ`, `X_omega_..`, `X_v_..` by the
basis X its components refer to.  Under that convention `A_XY @ Z_vec` is well typed iff Y == Z, `A_XY @ A_ZW` iff Y == Z,
`A_XY.T` has type (Y, X), sums and cross products need equal bases, and an assignment to a typed name must receive that type.
Tags can be qualified by the object that owns the attribute (`parent.A_IR`: the reference basis R *of the parent* = Rp).
Only products whose operands are both typed by their names are judged; everything else is untyped (no verdict)."""
from __future__ import annotations

import ast
import re

from .core import dotted, norm_src

TAG = r"(?:I|[A-Z][a-z]?\d?)"
A_RE = re.compile(rf"^A_({TAG})({TAG})$")
V_RE = re.compile(rf"^({TAG})_(?:r|v|a|omega|Omega|psi|Psi)_?\w*$")


class Typer:
    def __init__(self, owner_map=None, alias=None):
        self.owner_map = owner_map or {}   # owner name -> {tag: qualified tag}
        self.alias = alias or {}           # tag -> canonical tag

    def canon(self, tag, owner):
        t = self.owner_map.get(owner, {}).get(tag, tag)
        return self.alias.get(t, t)

    @staticmethod
    def _name_owner(e):
        if isinstance(e, ast.Call):
            e = e.func
        d = dotted(e)
        if not d:
            return None, None
        parts = d.split(".")
        return parts[-1], (parts[-2] if len(parts) > 1 else None)

    def mat(self, e):
        if isinstance(e, ast.Attribute) and e.attr == "T":
            b = self.mat(e.value)
            return (b[1], b[0]) if b else None
        if isinstance(e, ast.BinOp) and isinstance(e.op, ast.MatMult):
            l, r = self.mat(e.left), self.mat(e.right)
            return (l[0], r[1]) if l and r else None
        nm, owner = self._name_owner(e)
        if nm:
            m = A_RE.match(nm)
            if m:
                return self.canon(m.group(1), owner), self.canon(m.group(2), owner)
        return None

    def vec(self, e):
        if isinstance(e, ast.BinOp) and isinstance(e.op, ast.MatMult):
            l = self.mat(e.left)
            return l[0] if l and self.vec(e.right) else None
        if isinstance(e, ast.BinOp) and isinstance(e.op, (ast.Add, ast.Sub)):
            a, b = self.vec(e.left), self.vec(e.right)
            return a if a and a == b else None
        if isinstance(e, ast.UnaryOp):
            return self.vec(e.operand)
        if isinstance(e, ast.BinOp) and isinstance(e.op, (ast.Mult, ast.Div)):
            return self.vec(e.left) or self.vec(e.right)
        if isinstance(e, ast.Call) and (dotted(e.func) or "").split(".")[-1] in ("cross3", "cross") and len(e.args) == 2:
            a, b = self.vec(e.args[0]), self.vec(e.args[1])
            return a if a and a == b else None
        nm, owner = self._name_owner(e)
        if nm and not A_RE.match(nm):
            m = V_RE.match(nm)
            if m:
                return self.canon(m.group(1), owner)
        return None

    def check(self, tree):
        """yields (node, kind, message) for ill-typed constructs and (node, 'ok', text) for well-typed ones"""
        for n in ast.walk(tree):
            if isinstance(n, ast.BinOp) and isinstance(n.op, ast.MatMult):
                l = self.mat(n.left)
                if l:
                    r = self.vec(n.right)
                    if r:
                        yield (n, "ok" if l[1] == r else "bad", f"{norm_src(n)[:90]}: rotation maps {l[1]}-components, operand is expressed in {r}")
                    r2 = self.mat(n.right)
                    if r2:
                        yield (n, "ok" if l[1] == r2[0] else "bad", f"{norm_src(n)[:90]}: left factor maps {l[1]}-components, right factor returns {r2[0]}-components")
            elif isinstance(n, ast.BinOp) and isinstance(n.op, (ast.Add, ast.Sub)):
                a, b = self.vec(n.left), self.vec(n.right)
                if a and b:
                    yield (n, "ok" if a == b else "bad", f"{norm_src(n)[:90]}: sum of a vector in {a} and a vector in {b}")
            elif isinstance(n, ast.Call) and (dotted(n.func) or "").split(".")[-1] in ("cross3", "cross") and len(n.args) == 2:
                a, b = self.vec(n.args[0]), self.vec(n.args[1])
                if a and b:
                    yield (n, "ok" if a == b else "bad", f"{norm_src(n)[:90]}: cross product of a vector in {a} and a vector in {b}")
            elif isinstance(n, ast.Assign) and len(n.targets) == 1:
                t = n.targets[0]
                tm, vm = self.mat(t), self.mat(n.value)
                if tm and vm:
                    yield (n, "ok" if tm == vm else "bad", f"{norm_src(n)[:90]}: target is a rotation {tm}, value is {vm}")
                tv, vv = self.vec(t), self.vec(n.value)
                if tv and vv:
                    yield (n, "ok" if tv == vv else "bad", f"{norm_src(n)[:90]}: target is expressed in {tv}, value in {vv}")
