"""Exhaustive constant folding of small integer / index expressions over a finite domain of one variable.

Used for index bookkeeping that depends on a constructor parameter with a documented finite range (axis in {0, 1, 2}):
the expression language is literals, tuples/lists, + - * % //, unary minus, subscripts and slices, len, range, list/tuple,
np.roll(seq, k), np.delete(seq, i), np.array/asarray(seq), np.arange(n), np.setdiff1d(a, b).  Anything else -> Unknown (no verdict)."""
from __future__ import annotations

import ast

from .core import dotted


class Unknown(Exception):
    pass


def ev(e, env):
    if isinstance(e, ast.Constant) and isinstance(e.value, int) and not isinstance(e.value, bool):
        return e.value
    if isinstance(e, ast.Name):
        if e.id in env:
            return env[e.id]
        raise Unknown(e.id)
    if isinstance(e, ast.Attribute):
        d = dotted(e)
        if d in env:
            return env[d]
        raise Unknown(d or "attribute")
    if isinstance(e, (ast.Tuple, ast.List)):
        return [ev(x, env) for x in e.elts]
    if isinstance(e, ast.UnaryOp) and isinstance(e.op, ast.USub):
        v = ev(e.operand, env)
        if isinstance(v, int):
            return -v
        raise Unknown("-seq")
    if isinstance(e, ast.BinOp):
        a, b = ev(e.left, env), ev(e.right, env)
        if isinstance(a, int) and isinstance(b, int):
            if isinstance(e.op, ast.Add):
                return a + b
            if isinstance(e.op, ast.Sub):
                return a - b
            if isinstance(e.op, ast.Mult):
                return a * b
            if isinstance(e.op, ast.Mod) and b != 0:
                return a % b
            if isinstance(e.op, ast.FloorDiv) and b != 0:
                return a // b
        if isinstance(a, list) and isinstance(b, int) and isinstance(e.op, (ast.Add, ast.Sub, ast.Mod)):
            # numpy broadcasting on an index array
            f = {ast.Add: lambda x: x + b, ast.Sub: lambda x: x - b, ast.Mod: lambda x: x % b}[type(e.op)]
            return [f(x) for x in a]
        raise Unknown("binop")
    if isinstance(e, ast.Subscript):
        v = ev(e.value, env)
        if not isinstance(v, list):
            raise Unknown("subscript of scalar")
        sl = e.slice
        if isinstance(sl, ast.Slice):
            lo = ev(sl.lower, env) if sl.lower is not None else None
            hi = ev(sl.upper, env) if sl.upper is not None else None
            st = ev(sl.step, env) if sl.step is not None else None
            return v[slice(lo, hi, st)]
        i = ev(sl, env)
        if isinstance(i, int):
            return v[i]
        if isinstance(i, list):
            return [v[k] for k in i]
        raise Unknown("index")
    if isinstance(e, ast.Call):
        d = dotted(e.func) or ""
        last = d.split(".")[-1]
        args = [ev(a, env) for a in e.args]
        if last in ("array", "asarray", "list", "tuple", "sorted") and len(args) == 1 and isinstance(args[0], list):
            return sorted(args[0]) if last == "sorted" else list(args[0])
        if last == "roll" and len(args) == 2 and isinstance(args[0], list) and isinstance(args[1], int):
            n = len(args[0])
            k = args[1] % n if n else 0
            return args[0][-k:] + args[0][:-k] if k else list(args[0])
        if last == "delete" and len(args) == 2 and isinstance(args[0], list):
            idx = args[1] if isinstance(args[1], list) else [args[1]]
            idx = [i % len(args[0]) for i in idx]
            return [x for k, x in enumerate(args[0]) if k not in idx]
        if last == "setdiff1d" and len(args) == 2:
            b = args[1] if isinstance(args[1], list) else [args[1]]
            return sorted(set(args[0]) - set(b))
        if last in ("arange", "range") and args and all(isinstance(a, int) for a in args):
            return list(range(*args))
        if last == "len" and len(args) == 1 and isinstance(args[0], list):
            return len(args[0])
        if last == "int" and len(args) == 1 and isinstance(args[0], int):
            return args[0]
        raise Unknown(d or "call")
    raise Unknown(type(e).__name__)


def parity(perm):
    """+1 / -1 for a permutation of 0..n-1, None otherwise."""
    p = list(perm)
    if sorted(p) != list(range(len(p))):
        return None
    sign = 1
    for i in range(len(p)):
        while p[i] != i:
            j = p[i]
            p[i], p[j] = p[j], p[i]
            sign = -sign
    return sign
