"""K18: purity of memoised results.  cachetools hands out the STORED object: whoever receives the result of a memoised method holds
the cache entry itself.  Two ways to poison it:
  (a) the memoised method returns a persistent buffer of the instance that it rewrites on every call (all results alias one array);
  (b) a consumer modifies the received array in place (`x -= ..`, `x /= ..`, `x[..] = ..`, `out=x`).
Names are resolved by method name over the whole package (subsystems are polymorphic: `subsystem.v_P` may be RigidBody's memoised one),
through wrappers: a lambda / method whose value is directly the result of a memoised call (`self.v_P2 = lambda t, q, u:
self.subsystem2.v_P(...)`) hands out the same object."""
from __future__ import annotations

import ast

from .core import dotted, norm_src

DECOS = ("cachedmethod", "cached", "lru_cache", "cache")
FRESH_CALLS = {"copy", "array", "zeros", "zeros_like", "empty", "ones", "asarray_chkfinite", "concatenate", "hstack", "vstack", "stack", "einsum", "dot", "outer", "cross3", "ax2skew"}


def _is_memo(fn):
    for d in fn.decorator_list:
        f = d.func if isinstance(d, ast.Call) else d
        if (dotted(f) or "").split(".")[-1] in DECOS:
            return True
    return False


def memo_names(repo, prefix="cardillo/"):
    """method names that are memoised in some class + names of wrappers that return such a result unchanged (fixpoint)"""
    names = set()
    wrappers = {}   # name -> [expr returned]
    for rel, mod in repo.modules.items():
        if not rel.startswith(prefix):
            continue
        for n in ast.walk(mod.tree):
            if isinstance(n, ast.FunctionDef):
                if _is_memo(n):
                    names.add(n.name)
                rets = [r.value for r in ast.walk(n) if isinstance(r, ast.Return) and r.value is not None]
                if len(rets) == 1 and len(n.body) <= 2:
                    wrappers.setdefault(n.name, []).append(rets[0])
            elif isinstance(n, ast.Assign) and isinstance(n.value, ast.Lambda):
                for t in n.targets:
                    if isinstance(t, ast.Attribute):
                        wrappers.setdefault(t.attr, []).append(n.value.body)
                    elif isinstance(t, ast.Name):
                        wrappers.setdefault(t.id, []).append(n.value.body)
    base = set(names)
    changed = True
    while changed:
        changed = False
        for w, exprs in wrappers.items():
            if w in names:
                continue
            for e in exprs:
                if isinstance(e, ast.Call) and (dotted(e.func) or "").split(".")[-1] in names and isinstance(e.func, ast.Attribute):
                    names.add(w)
                    changed = True
                    break
    return base, names


def handed_out(fn, names):
    """{local name: call node} for locals bound DIRECTLY to the result of a (possibly) memoised call, also through tuple unpacking"""
    out = {}
    multi = {}
    for n in ast.walk(fn):
        if isinstance(n, ast.Assign):
            for t in n.targets:
                for tt in (t.elts if isinstance(t, (ast.Tuple, ast.List)) else [t]):
                    if isinstance(tt, ast.Name):
                        multi.setdefault(tt.id, []).append(n)
    for name, defs in multi.items():
        hits = []
        for n in defs:
            v = n.value
            if isinstance(v, ast.Call) and isinstance(v.func, ast.Attribute) and v.func.attr in names:
                hits.append(v)
        if hits and len(hits) == len(defs):
            out[name] = hits[0]
    return out


def inplace_uses(fn, names):
    """[(stmt, local, call, how)]"""
    locs = handed_out(fn, names)
    res = []
    for n in ast.walk(fn):
        if isinstance(n, ast.AugAssign):
            t = n.target
            b = t
            while isinstance(b, ast.Subscript):
                b = b.value
            if isinstance(b, ast.Name) and b.id in locs:
                res.append((n, b.id, locs[b.id], f"in-place `{norm_src(n)[:60]}`"))
        elif isinstance(n, ast.Assign):
            for t in n.targets:
                if isinstance(t, ast.Subscript):
                    b = t
                    while isinstance(b, ast.Subscript):
                        b = b.value
                    if isinstance(b, ast.Name) and b.id in locs:
                        res.append((n, b.id, locs[b.id], f"element store `{norm_src(n)[:60]}`"))
        elif isinstance(n, ast.Call):
            for k in n.keywords:
                if k.arg == "out" and isinstance(k.value, ast.Name) and k.value.id in locs:
                    res.append((n, k.value.id, locs[k.value.id], f"`out=` argument of {norm_src(n.func)}"))
    return res, locs


def persistent_return(cls_node, fn):
    """the memoised method fn returns (an alias of) a self attribute that fn itself writes in place -> (attr, store stmt) or None"""
    alias = {}
    for n in ast.walk(fn):
        if isinstance(n, ast.Assign) and len(n.targets) == 1 and isinstance(n.targets[0], ast.Name) and isinstance(n.value, ast.Attribute) \
                and isinstance(n.value.value, ast.Name) and n.value.value.id == "self":
            alias[n.targets[0].id] = n.value.attr

    def attr_of(e):
        b = e
        while isinstance(b, ast.Subscript):
            b = b.value
        if isinstance(b, ast.Name) and b.id in alias:
            return alias[b.id]
        if isinstance(b, ast.Attribute) and isinstance(b.value, ast.Name) and b.value.id == "self":
            return b.attr
        return None
    returned = {attr_of(r.value) for r in ast.walk(fn) if isinstance(r, ast.Return) and r.value is not None and isinstance(r.value, (ast.Name, ast.Attribute))}
    returned.discard(None)
    for n in ast.walk(fn):
        tgt = None
        if isinstance(n, ast.AugAssign):
            tgt = n.target
        elif isinstance(n, ast.Assign) and isinstance(n.targets[0], ast.Subscript):
            tgt = n.targets[0]
        if tgt is not None:
            a = attr_of(tgt)
            if a in returned:
                return a, n
    return None


def argument_views(fn):
    """[(return stmt, parameter)] for returns that hand out a parameter itself or a basic-slicing / transposing / reshaping view of it"""
    params = {a.arg for a in fn.args.args} - {"self"}
    out = []
    for r in [w for w in ast.walk(fn) if isinstance(w, ast.Return) and w.value is not None]:
        v = r.value
        while True:
            if isinstance(v, ast.Subscript) and not any(isinstance(x, (ast.List, ast.Name, ast.Call)) for x in ast.walk(v.slice) if not isinstance(x, ast.Slice) and x is not v.slice) \
                    and (isinstance(v.slice, ast.Slice) or (isinstance(v.slice, ast.Tuple) and any(isinstance(e, ast.Slice) for e in v.slice.elts))):
                v = v.value
            elif isinstance(v, ast.Attribute) and v.attr == "T":
                v = v.value
            elif isinstance(v, ast.Call) and isinstance(v.func, ast.Attribute) and v.func.attr in ("reshape", "view", "ravel", "squeeze", "transpose"):
                v = v.func.value
            else:
                break
        if isinstance(v, ast.Name) and v.id in params:
            out.append((r, v.id))
    return out


def side_effects(fn):
    """stores to instance attributes inside a memoised method: on a cache HIT the body does not run, so whoever reads such an attribute
    afterwards sees the value of the last MISS, which belongs to other arguments as soon as the cache holds more than one entry (or another
    memoised reader keeps its own entry alive).  -> [(stmt, attr)]"""
    out = []
    for n in ast.walk(fn):
        tg = n.targets if isinstance(n, ast.Assign) else ([n.target] if isinstance(n, (ast.AugAssign, ast.AnnAssign)) else [])
        for t in tg:
            for tt in (t.elts if isinstance(t, (ast.Tuple, ast.List)) else [t]):
                b = tt
                while isinstance(b, ast.Subscript):
                    b = b.value
                if isinstance(b, ast.Attribute) and isinstance(b.value, ast.Name) and b.value.id == "self":
                    out.append((n, b.attr))
    return out


def report(ctx, rule, scope, check_returns=True, floor_note=True):
    """arms (a) and (b) for the modules whose path starts with one of `scope`; returns the number of functions looked at"""
    rep = ctx.rep
    base, names = memo_names(ctx.repo)
    if len(base) < 8:
        from .core import AnalysisError
        raise AnalysisError(f"{rule}: only {len(base)} memoised method names found in the package")
    nfn = nloc = 0
    for rel, mod in sorted(ctx.repo.modules.items()):
        if not rel.startswith(tuple(scope)):
            continue
        for q, fn in mod.defs().items():
            if not isinstance(fn, ast.FunctionDef):
                continue
            nfn += 1
            C = f"{rel}:{q}"
            res, locs = inplace_uses(fn, names)
            nloc += len(locs)
            seen = set()
            for st, l, call, how in res:
                if id(st) in seen:
                    continue
                seen.add(id(st))
                rep.bad(rule, C, st, f"`{l}` is the object returned by `{norm_src(call)[:60]}`, which is (or may be, for a RigidBody / rod / contact) the entry stored in a memoisation cache; "
                        f"{how} rewrites that entry: every later evaluation with the same arguments returns the modified array", f"{rel}:{st.lineno}")
            if locs and not res:
                rep.ok(rule, C, f"{len(locs)} local(s) bound to memoised results ({', '.join(sorted(locs)[:4])}...), none modified in place")
            if check_returns and _is_memo(fn):
                pr = persistent_return(None, fn)
                if pr:
                    a, st = pr
                    rep.bad(rule, C, st, f"the memoised method returns the instance buffer `self.{a}` and rewrites it on every call (`{norm_src(st)[:60]}`): all results handed out so far "
                            "alias one array and change with the next call (another offset, another state)", f"{rel}:{st.lineno}")
                else:
                    views = argument_views(fn)
                    if views:
                        r_, p_ = views[0]
                        rep.bad(rule, C, r_, f"the memoised method returns `{norm_src(r_.value)}`, a view of its own argument `{p_}` (basic slicing does not copy): the cache entry aliases an array "
                                "the CALLER owns, so an in-place update of that array (a state update, a restore from a snapshot) changes the entry under an unchanged key and a later call with "
                                "the old values is served the new state's result", f"{rel}:{r_.lineno}")
                    else:
                        rep.ok(rule, C, "memoised method returns a freshly built value")
                for st, a in side_effects(fn):
                    rep.bad(rule, C, st, f"the memoised method stores `self.{a}` as a side effect: a cache hit skips the body, so a later reader of `self.{a}` gets the value of the last "
                            "cache MISS, which belongs to other arguments once two configurations alternate (and the reader memoises the wrong result in turn)", f"{rel}:{st.lineno}")
    if floor_note:
        rep.note(f"{rule}: {nfn} functions scanned, {nloc} locals bound directly to memoised results; memoised names: {', '.join(sorted(base))}")
    return nfn
