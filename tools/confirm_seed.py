#!/venv/bin/python
"""Confirm a seed and file it:  tools/confirm_seed.py <seed dir> <name>
 - tools/try_seed.py (demo fails patched / passes clean, which quick checks fire, /repo restored)
 - fresh git worktree of /repo HEAD outside /repo and /verif, patch applied, the pinned test suite run there, worktree removed
 - files copied to /verif/seeded/<name>/ with meta.json extended by what was run here."""
import json, os, shutil, subprocess, sys, tempfile

seed, name = os.path.abspath(sys.argv[1]), sys.argv[2]


def sh(cmd, **kw):
    return subprocess.run(cmd, shell=True, capture_output=True, text=True, **kw)


r = sh(f"/venv/bin/python /verif/tools/try_seed.py {seed}")
res = json.loads(r.stdout[r.stdout.index("{"):])
wt = tempfile.mkdtemp(prefix="seedwt_", dir="/tmp")
os.rmdir(wt)
try:
    assert sh(f"git -C /repo worktree add --detach {wt} HEAD").returncode == 0
    a = sh(f"git -C {wt} apply {seed}/patch.diff")
    res["patch_applies_to_head"] = a.returncode == 0
    base = json.load(open("/root/.vp/BASELINE.json"))
    t = sh(f"cd {wt} && PYTHONPATH={wt} /venv/bin/python -m pytest -q -p no:cacheprovider --timeout=900 -n 8 2>&1 | tail -1", timeout=3600)
    res["pinned_tests_on_patched_tree"] = t.stdout.strip()
finally:
    sh(f"git -C /repo worktree remove --force {wt}")
    shutil.rmtree(wt, ignore_errors=True)
dst = f"/verif/seeded/{name}"
os.makedirs(dst, exist_ok=True)
for f in ("patch.diff", "demo.py"):
    shutil.copy(os.path.join(seed, f), dst)
meta = json.load(open(os.path.join(seed, "meta.json")))
meta["origin"] = "independent sub-agent given only the property text and a scratch worktree"
meta["confirmed_here"] = {
    "demo_on_patched_repo_exit": res.get("demo_patched_exit"), "demo_tail": res.get("demo_patched_tail"),
    "demo_on_clean_repo_exit": res.get("demo_clean_exit"), "pinned_tests_on_patched_tree": res.get("pinned_tests_on_patched_tree"),
    "quick_checks_reporting_a_violation": res.get("checks_firing"),
    "how": "git -C /repo apply patch.diff; PYTHONPATH=/repo /venv/bin/python demo.py; every MANIFEST quick_cmd; git -C /repo checkout -- .",
}
json.dump(meta, open(os.path.join(dst, "meta.json"), "w"), indent=1)
print(name, json.dumps(meta["confirmed_here"], indent=1))
