#!/venv/bin/python
"""Confirm an independently produced breaking change (seed) and file it:  tools/confirm_seed.py <seed dir> <name> [--no-tests]
Everything happens in ONE fresh git worktree of /repo HEAD under /tmp (never in /repo, removed afterwards):
 1. demo.py on the clean worktree must exit 0;
 2. patch.diff applied (must apply to HEAD);  demo.py must exit non-zero;
 3. every registered quick check run with --root <worktree> (evidence redirected): which ones report a VIOLATION / ANALYSIS-ERROR;
 4. the pinned test suite on the patched worktree (pytest -n 8);
 5. files copied to /verif/seeded/<name>/, meta.json extended by what was run here."""
import concurrent.futures as cf
import json, os, shutil, subprocess, sys, tempfile

seed, name = os.path.abspath(sys.argv[1]), sys.argv[2]
V = "/verif"


def sh(cmd, **kw):
    return subprocess.run(cmd, shell=True, capture_output=True, text=True, **kw)


res = {}
wt = tempfile.mkdtemp(prefix="seedwt_", dir="/tmp"); os.rmdir(wt)
scratch = tempfile.mkdtemp(prefix="seedev_", dir="/tmp")
try:
    assert sh(f"git -C /repo worktree add --detach {wt} HEAD").returncode == 0
    env = dict(os.environ, PYTHONPATH=wt)
    r = sh(f"cd /tmp && /venv/bin/python {seed}/demo.py", env=env, timeout=1200)
    res["demo_clean_exit"] = r.returncode
    a = sh(f"git -C {wt} apply {seed}/patch.diff")
    res["patch_applies_to_head"] = a.returncode == 0
    if a.returncode != 0:
        print("PATCH DOES NOT APPLY", a.stderr); sys.exit(2)
    r = sh(f"cd /tmp && /venv/bin/python {seed}/demo.py", env=env, timeout=1200)
    res["demo_patched_exit"] = r.returncode
    res["demo_patched_tail"] = (r.stdout + r.stderr).strip().splitlines()[-3:]
    man = json.load(open(f"{V}/MANIFEST.json"))

    def one(pid):
        rr = sh(f"cd {V} && VERIF_NO_SELFTEST=1 VERIF_EVIDENCE_DIR={scratch} ./check {pid} --tier quick --root {wt}", timeout=900)
        if rr.returncode == 1:
            return pid, sorted({l.split("rule=")[1].split()[0] for l in rr.stdout.splitlines() if "rule=" in l})
        if rr.returncode == 2:
            return pid, ["ANALYSIS-ERROR: " + ([l for l in rr.stdout.splitlines() if "ANALYSIS-ERROR" in l] or ["?"])[-1][:200]]
        return pid, None
    with cf.ThreadPoolExecutor(6) as ex:
        res["checks_firing"] = {p: v for p, v in ex.map(one, [c["property_id"] for c in man["checks"]]) if v}
    if "--no-tests" not in sys.argv:
        t = sh(f"cd {wt} && PYTHONPATH={wt} /venv/bin/python -m pytest -q -p no:cacheprovider --timeout=900 -n 8 2>&1 | tail -1", timeout=3600)
        res["pinned_tests_on_patched_tree"] = t.stdout.strip()
finally:
    sh(f"git -C /repo worktree remove --force {wt}")
    shutil.rmtree(wt, ignore_errors=True); shutil.rmtree(scratch, ignore_errors=True)
ok = res["demo_clean_exit"] == 0 and res["demo_patched_exit"] != 0 and "85 passed" in res.get("pinned_tests_on_patched_tree", "85 passed")
dst = f"{V}/seeded/{name}"
meta = json.load(open(os.path.join(seed, "meta.json")))
meta["origin"] = "independent sub-agent given only the property text and a scratch worktree"
meta["confirmed_here"] = {
    "demo_on_patched_tree_exit": res.get("demo_patched_exit"), "demo_tail": res.get("demo_patched_tail"),
    "demo_on_clean_tree_exit": res.get("demo_clean_exit"), "pinned_tests_on_patched_tree": res.get("pinned_tests_on_patched_tree"),
    "quick_checks_reporting_a_violation": res.get("checks_firing"),
    "repo_head": sh("git -C /repo rev-parse --short HEAD").stdout.strip(),
    "how": "fresh worktree of /repo HEAD; demo.py (clean) ; git apply patch.diff; demo.py (patched); every MANIFEST quick_cmd with --root <worktree>; pytest -n 8; worktree removed",
}
if ok:
    os.makedirs(dst, exist_ok=True)
    for f in ("patch.diff", "demo.py"):
        if os.path.abspath(os.path.join(seed, f)) != os.path.abspath(os.path.join(dst, f)):
            shutil.copy(os.path.join(seed, f), dst)
    json.dump(meta, open(os.path.join(dst, "meta.json"), "w"), indent=1)
print(name, "CONFIRMED" if ok else "NOT CONFIRMED", json.dumps(meta["confirmed_here"], indent=1))
