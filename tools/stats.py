#!/usr/bin/env python3
"""numbers quoted in DESIGN.md §6 / §8: mutants, behaviour-preserving edits, canaries, rules, seeds"""
import importlib, json, os, sys, glob
sys.path.insert(0, os.path.dirname(os.path.dirname(os.path.abspath(__file__))))
mut = neu = can = 0
for f in sorted(glob.glob(os.path.join(os.path.dirname(__file__), "..", "sa", "props", "c*.py"))):
    m = importlib.import_module("sa.props." + os.path.basename(f)[:-3])
    M, N = getattr(m, "MUTANTS", []), getattr(m, "NEUTRAL", [])
    mut += len(M); neu += len(N); can += sum(1 for x in M + N if x.get("canary"))
lines = sum(len(open(f).read().splitlines()) for f in glob.glob("sa/**/*.py", recursive=True))
seeds = sorted(d for d in os.listdir("seeded") if os.path.isdir(os.path.join("seeded", d)))
print(f"mutants={mut} neutral={neu} canary={can} sa_lines={lines} seeds={len(seeds)}")
try:
    mx = json.load(open("seeded/MATRIX.json"))
    rows = mx.get("seeds", mx)
    own = sum(1 for k, v in rows.items() if isinstance(v, dict) and v.get("property") in v.get("violation", {}))
    print("not caught by own:", [k for k, v in rows.items() if isinstance(v, dict) and v.get("property") not in v.get("violation", {})])
    print("matrix seeds:", len(rows), "caught by own:", own)
except Exception as e:
    print("matrix:", e)
k = json.load(open("known_findings.json"))["findings"]
print("findings:", len(k), "open:", [f["id"] for f in k if f.get("status") == "open"])
