#!/venv/bin/python
"""Writes the prompt for a seeding sub-agent: property text + the summaries of the seeds already filed for it (so the next one differs in
kind and place).  Nothing about /verif's checks goes into the prompt.   usage: make_seed_prompt.py <Cxx> <round letter> [outdir]"""
import glob
import json
import os
import sys

HERE = os.path.dirname(os.path.dirname(os.path.abspath(__file__)))
pid, rnd = sys.argv[1], sys.argv[2]
out = sys.argv[3] if len(sys.argv) > 3 else "/tmp/wt/_prompts"
tag = f"{pid}{rnd}"
wt = f"/tmp/wt/{tag}"
p = next(json.loads(l) for l in open(os.path.join(HERE, "properties.jsonl")) if json.loads(l)["id"] == pid)
earlier = []
for m in sorted(glob.glob(os.path.join(HERE, "seeded", f"{pid}-*", "meta.json"))):
    earlier.append(json.load(open(m))["summary"].strip())
prev = ""
if earlier:
    prev = ("The following changes have ALREADY been proposed by other people for this property; yours must be different in kind AND in place "
            "(another function / another clause of the statement / another mechanism). Look for clauses of the statement and anchors that none of them touches:\n"
            + "\n".join(" - " + e for e in earlier) + "\n\n")
txt = f"""You are helping to evaluate a verification effort by playing the role of a careless-but-plausible maintainer.

You have your own scratch git worktree of the Python project cardillo (cardilloproject/cardillo: simulation framework for flexible multibody systems) at {wt}. Work ONLY inside {wt}. Never read or write /repo or /verif (they are off limits; do not look there at all), and do not look at other directories under /tmp/wt. No network is available.

Python interpreter: /venv/bin/python (numpy, scipy, pytest, pytest-xdist installed). To make sure your worktree's code is the one imported, always run with PYTHONPATH={wt}, e.g.
  cd {wt} && PYTHONPATH={wt} /venv/bin/python -c "import cardillo; print(cardillo.__file__)"
The existing test suite is run with
  cd {wt} && PYTHONPATH={wt} /venv/bin/python -m pytest -q -p no:cacheprovider --timeout=900 -n 4
(it takes several minutes; 85 tests must pass). Run it only once or twice, at the end.

Here is a semantic property that the code base is supposed to satisfy (property {pid}):

TITLE: {p['title']}

STATEMENT: {p['statement']}

QUANTIFIER: {p['quantifier']}

WHY TESTS CANNOT SETTLE IT: {p['why_tests_cant']}

ANCHORS (where the property lives in the code): {json.dumps(p['anchors'])}

YOUR TASK
Produce ONE change to the library source under {wt}/cardillo/ (not to tests, not to examples) that BREAKS this property while
 (a) the package still imports, and the whole existing test suite still passes (85 passed) with your change;
 (b) the change looks like something a maintainer could plausibly commit (a refactoring, a "simplification", an optimisation, a cache, a reordering, a "cleanup", a generalisation that is subtly wrong) -- not obvious sabotage, no dead/odd code, no special-casing of magic values;
 (c) the breakage needs something SPECIFIC to manifest: an unusual input or state (e.g. non-unit quaternion, unequal radii, non-zero offset, t0 != 0, off-manifold state), a multi-step sequence of operations, a particular configuration of the system, a fault at a particular point, or two cooperating sites that each look fine alone. It must NOT be something ordinary use or the shipped tests/examples would expose at once.
Prefer a change that is semantically subtle (wrong factor, wrong evaluation point, wrong index/slice/DOF table, lost term, stale state, missing invalidation, altered control flow on a rare path, swapped sibling, aliasing of a buffer, wrong sign that cancels in the common case) over a crude one. Keep the diff small (typically 1-15 changed lines, one or two files).

{prev}Then write a demonstration program that shows the property is broken: it must exit with a NON-ZERO status (and print what is wrong) when run against your changed tree, and exit 0 when run against the unchanged tree. It will be run as:  cd /tmp && PYTHONPATH=<repo root> /venv/bin/python demo.py   so it must not depend on the current directory or on the path of your worktree, must import cardillo normally, must be deterministic, and should finish within about a minute. It should test the PROPERTY (e.g. compare a reported derivative against finite differences, check an invariant, compare restarted vs uninterrupted runs), not the text of the source.

Verify all of this yourself: run the demo with your change (fails) and with the change temporarily reverted (passes). IMPORTANT: do NOT use `git stash` (the stash is shared with other people's worktrees of the same repository and will swap changes between them); instead use `git diff -- cardillo > {wt}/_seed/patch.diff; git apply -R {wt}/_seed/patch.diff; <run demo>; git apply {wt}/_seed/patch.diff`. Run the full test suite with your change applied (85 passed).

DELIVERABLES, in the directory {wt}/_seed/ (create it):
  patch.diff  = output of `git -C {wt} diff -- cardillo`  (must apply with `git apply` to the unchanged tree)
  demo.py     = the demonstration program
  meta.json   = {{"property": "{pid}", "summary": "<what you changed and why it breaks the property>", "needs_to_manifest": "<what specific input/state/sequence is needed>", "files_changed": [...], "tests_run": "<the command and its last line of output>"}}
Leave your change applied in the worktree (uncommitted). Do not commit. In your final answer, give a short summary: what you changed, what is needed to manifest it, the test-suite result line, and the demo's output with and without the change. If while reading the code you notice something that ALREADY violates the property on the unchanged tree, mention it separately at the end (with a way to reproduce), but still deliver a seeded change of your own.
"""
os.makedirs(out, exist_ok=True)
open(os.path.join(out, f"{tag}.md"), "w").write(txt)
print(os.path.join(out, f"{tag}.md"), len(earlier), "earlier seeds")
