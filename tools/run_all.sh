#!/bin/bash
# development gate: every registered check on /repo's working tree, self-test failures fatal.   tools/run_all.sh [quick|thorough]
tier=${1:-quick}; cd /verif; rc=0
ids=$(/venv/bin/python -c "import json;print(' '.join(c['property_id'] for c in json.load(open('MANIFEST.json'))['checks']))")
run() { s=$(date +%s.%N); VERIF_SELFTEST_STRICT=1 ./check $1 --tier $tier > /tmp/runall_$1.log 2>&1; r=$?; e=$(date +%s.%N)
        printf "%s rc=%s %.1fs known=%s %s\n" $1 $r $(echo "$e-$s"|bc) $(grep -c KNOWN-FINDING /tmp/runall_$1.log) "$(grep -h 'self-test:' /tmp/runall_$1.log | sed 's/.*self-test: //')"; return $r; }
export -f run; export tier
if [ "$tier" = quick ]; then printf "%s\n" $ids | xargs -P 8 -I{} bash -c 'run {}' | sort; else for i in $ids; do run $i; done; fi
grep -l "VIOLATION\|ANALYSIS-ERROR\|SELFTEST-FAILURE" /tmp/runall_*.log
