#!/venv/bin/python
"""Evaluate an independently produced breaking change (seed):  tools/try_seed.py <seed dir> [--tests <worktree>]
 1. the patch applies to /repo;  2. demo.py FAILS on the patched /repo and PASSES on the clean one;
 3. every registered quick check is run against the patched /repo: which ones report a VIOLATION;
 4. /repo is restored (git checkout -- .) in every case."""
import json
import os
import subprocess
import sys

seed = os.path.abspath(sys.argv[1])
patch = os.path.join(seed, "patch.diff")
demo = os.path.join(seed, "demo.py")
tests_wt = sys.argv[sys.argv.index("--tests") + 1] if "--tests" in sys.argv else None
env = dict(os.environ, PYTHONPATH="/repo")


def sh(cmd, **kw):
    return subprocess.run(cmd, shell=True, capture_output=True, text=True, **kw)


assert sh("git -C /repo status --porcelain").stdout.strip() == "", "/repo is not clean"
res = {"seed": seed}
r = sh(f"git -C /repo apply --check {patch}")
if r.returncode != 0:
    print("PATCH DOES NOT APPLY:", r.stderr)
    sys.exit(2)
try:
    sh(f"git -C /repo apply {patch}")
    r = sh(f"cd /tmp && /venv/bin/python {demo}", env=env, timeout=600)
    res["demo_patched_exit"] = r.returncode
    res["demo_patched_tail"] = (r.stdout + r.stderr).strip().splitlines()[-3:]
    man = json.load(open("/verif/MANIFEST.json"))
    hits = {}
    for c in man["checks"]:
        pid = c["property_id"]
        rr = sh(f"cd /verif && {c['quick_cmd']}", timeout=600)
        if rr.returncode == 1:
            rules = sorted({l.split("rule=")[1].split()[0] for l in rr.stdout.splitlines() if "rule=" in l})
            hits[pid] = rules
        elif rr.returncode == 2:
            hits[pid] = ["ANALYSIS-ERROR: " + [l for l in rr.stdout.splitlines() if "ANALYSIS-ERROR" in l][-1][:200]]
    res["checks_firing"] = hits
finally:
    sh("git -C /repo checkout -- .")
r = sh(f"cd /tmp && /venv/bin/python {demo}", env=env, timeout=600)
res["demo_clean_exit"] = r.returncode
if tests_wt:
    d = sh(f"git -C {tests_wt} diff -- cardillo").stdout
    res["worktree_diff_equals_patch"] = d.strip() == open(patch).read().strip()
    r = sh(f"cd {tests_wt} && PYTHONPATH={tests_wt} /venv/bin/python -m pytest -q -p no:cacheprovider --timeout=900 -n 8 2>&1 | tail -1", timeout=1800)
    res["tests_on_patched_worktree"] = r.stdout.strip()
print(json.dumps(res, indent=1))
