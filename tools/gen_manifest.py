#!/venv/bin/python
"""Regenerates /verif/MANIFEST.json from the property modules under sa/props (single source of truth)."""
import importlib
import json
import os
import sys

HERE = os.path.dirname(os.path.dirname(os.path.abspath(__file__)))
sys.path.insert(0, HERE)

NA = {
    "C02": "Round-trips of Exp/Log, Spurrier's branch choice and behaviour within rounding distance of a half-turn are facts about real and floating-point values of transcendental expressions; no code-shape fact is a necessary condition of the round-trip (DESIGN §5).",
    "C03": "Closed-form trigonometric coefficient formulas with no callee structure to cover and no scaling group under which they are homogeneous; agreement to a small tolerance down to |psi|=1e-9 is a cancellation question (DESIGN §5).",
    "C13": "Partition of unity, Kronecker property, quadrature exactness and elDOF arithmetic are value identities of numpy/scipy objects created at run time; nothing in the source shape decides them (DESIGN §5).",
}
PENDING = "checker not built yet in this round (see DESIGN §2 build order); no claim is made"

props = [json.loads(l) for l in open(os.path.join(HERE, "properties.jsonl"))]
checks, na = [], []
for p in props:
    pid = p["id"]
    path = os.path.join(HERE, "sa", "props", pid.lower() + ".py")
    if pid in NA:
        na.append({"property_id": pid, "reason": NA[pid]})
        continue
    if not os.path.exists(path):
        na.append({"property_id": pid, "reason": PENDING})
        continue
    mod = importlib.import_module(f"sa.props.{pid.lower()}")
    checks.append({
        "property_id": pid,
        "quick_cmd": f"./check {pid} --tier quick",
        "thorough_cmd": f"./check {pid} --tier thorough",
        "evidence_file": f"/verif/evidence/{pid}.json",
        "replay_cmd_template": f"./check {pid} --replay {{path}}",
        "engine": "sa",
        "level_claimed": {
            "category": "other",
            "text": getattr(mod, "LEVEL_TEXT", None) or (
                "Static analysis of /repo's current source (ast, class table with resolved MRO, CFG must-pass-through, "
                "def-use): decides the named structural clauses for every instance in the parsed program, not the "
                "numerical behaviour. " + mod.EXPLANATION),
            "design_ref": f"DESIGN.md §3/{pid}",
        },
        "level_note": "Decides only the structural clauses named in the module docstring; NOT decided: " + getattr(mod, "NOT_DECIDED", "") +
                      " Trusted: CPython ast, the analyser's CFG/dataflow, hand-confirmed tables in sa/tables.py and the rule modules; asserts enabled.",
        "technique": getattr(mod, "TECHNIQUE", "static analysis: custom ast/CFG/class-table rules"),
    })
man = {
    "version": 1,
    "setup_cmd": "/venv/bin/python -m compileall -q sa >/dev/null && /venv/bin/python -c 'import ast,sys; print(sys.version)'",
    "hooks": {
        "guard": "CARDILLOPROJECT_CARDILLO_VERIF",
        "enable": "no hooks: the analysers read /repo's sources and never execute them; nothing in cardillo is instrumented",
        "baseline_off_cmd": "cd /repo && /venv/bin/python -m pytest -ra -q -p no:cacheprovider --timeout=900 --continue-on-collection-errors",
        "source_commits": [],
        "add_only": True,
    },
    "engines": [{"name": "sa", "path": "/verif/sa", "serves_properties": [c["property_id"] for c in checks],
                 "kind_free_text": "pure-stdlib static analysers over ast: class table with factory-resolved MRO, statement CFG with dominators/path queries, def-use, rule modules per property; in-memory seeded-fault self-test"}],
    "checks": checks,
    "not_applicable": na,
    "notes": "All checks are static analyses of /repo's working tree (parsed on every run). exit 0 = clauses hold (KNOWN-FINDING lines possible), 1 = VIOLATION, 2 = ANALYSIS-ERROR (anchor vanished / floor not met / self-test failed). Genuine defects are listed in /verif/known_findings.json.",
}
json.dump(man, open(os.path.join(HERE, "MANIFEST.json"), "w"), indent=1)
print(f"{len(checks)} checks, {len(na)} not_applicable")
