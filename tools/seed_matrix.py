#!/venv/bin/python
"""Run every registered quick check against every kept seed WITHOUT touching /repo:
   tools/seed_matrix.py [seed names...]   ->  seeded/MATRIX.json (named seeds: rows merged into it) + table on stdout
For each seeded/<name>/patch.diff: fresh git worktree of /repo HEAD under /tmp, patch applied, all quick checks run with
--root <worktree> (evidence redirected to a scratch directory), worktree removed.  The demonstration programs are not
run here (tools/try_seed.py / confirm_seed.py do that)."""
import concurrent.futures as cf
import json, os, shutil, subprocess, sys, tempfile

V = "/verif"
names = sys.argv[1:] or sorted(d for d in os.listdir(f"{V}/seeded") if os.path.isdir(f"{V}/seeded/{d}"))
man = json.load(open(f"{V}/MANIFEST.json"))
pids = [c["property_id"] for c in man["checks"]]


def sh(cmd, **kw):
    return subprocess.run(cmd, shell=True, capture_output=True, text=True, **kw)


def one(job):
    wt, scratch, pid = job
    r = sh(f"cd {V} && VERIF_NO_SELFTEST=1 VERIF_EVIDENCE_DIR={scratch} ./check {pid} --tier quick --root {wt}", timeout=900)
    rules = sorted({l.split("rule=")[1].split()[0] for l in r.stdout.splitlines() if "rule=" in l})
    err = [l for l in r.stdout.splitlines() if l.startswith("ANALYSIS-ERROR") or "SELFTEST-FAILURE" in l]
    return pid, r.returncode, rules, err[:3]


out = {}
for name in names:
    wt = tempfile.mkdtemp(prefix="sm_", dir="/tmp"); os.rmdir(wt)
    scratch = tempfile.mkdtemp(prefix="smev_", dir="/tmp")
    try:
        assert sh(f"git -C /repo worktree add --detach {wt} HEAD").returncode == 0
        a = sh(f"git -C {wt} apply {V}/seeded/{name}/patch.diff")
        if a.returncode != 0:
            out[name] = {"error": "patch does not apply to /repo HEAD: " + a.stderr[:200]}
            continue
        with cf.ThreadPoolExecutor(14) as ex:
            res = list(ex.map(one, [(wt, scratch, p) for p in pids]))
        meta = json.load(open(f"{V}/seeded/{name}/meta.json"))
        out[name] = {"property": meta["property"],
                     "violation": {p: rules for p, rc, rules, _ in res if rc == 1},
                     "analysis_error": {p: err for p, rc, _, err in res if rc == 2}}
    finally:
        sh(f"git -C /repo worktree remove --force {wt}")
        shutil.rmtree(wt, ignore_errors=True); shutil.rmtree(scratch, ignore_errors=True)
    o = out[name]
    own = o.get("violation", {}).get(o.get("property"), [])
    print(f"{name:8s} target={o.get('property')} caught-by-own={'yes ' + ','.join(own) if own else 'NO'}  "
          f"others={ {k: v for k, v in o.get('violation', {}).items() if k != o.get('property')} }  "
          f"errors={list(o.get('analysis_error', {}))}", flush=True)
if sys.argv[1:]:   # partial run: merge the re-evaluated rows into the table of the last full run
    try:
        full = json.load(open(f"{V}/seeded/MATRIX.json"))
    except OSError:
        full = {}
    full.update(out)
    out = full
json.dump(out, open(f"{V}/seeded/MATRIX.json", "w"), indent=1, sort_keys=True)
