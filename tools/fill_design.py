#!/usr/bin/env python3
"""one-time fill of the @...@ placeholders of DESIGN.md §6 / §8 from tools/stats.py's numbers and seeded/MATRIX.json"""
import json, os, subprocess, sys, re
os.chdir(os.path.dirname(os.path.dirname(os.path.abspath(__file__))))
out = subprocess.run([sys.executable, "tools/stats.py"], capture_output=True, text=True).stdout
g = dict(re.findall(r"(\w+)=(\d+)", out.splitlines()[0]))
mx = json.load(open("seeded/MATRIX.json"))
rows = mx.get("seeds", mx)
own = [k for k, v in rows.items() if isinstance(v, dict) and v.get("property") in v.get("violation", {})]
notown = [k for k, v in rows.items() if isinstance(v, dict) and v.get("property") not in v.get("violation", {})]
matmin = sys.argv[1] if len(sys.argv) > 1 else "60"
why = sys.argv[2] if len(sys.argv) > 2 else ", ".join(notown)
s = open("DESIGN.md").read()
rep = {"@MUT@": g["mutants"], "@CAN@": g["canary"], "@NEU@": g["neutral"], "@SEEDS@": str(len(rows)), "@OWN@": f"{len(own)} of {len(rows)}",
       "@NOTOWN@": why, "@LINES@": str(round(int(g["sa_lines"]) / 1000)), "@MATMIN@": matmin}
for k, v in rep.items():
    s = s.replace(k, v)
s = s.replace("at the end of round i)", "at the end of round j)").replace("(rounds a-i, `seeded/`)", "(rounds a-j, `seeded/`)").replace("rounds b-i of rule writing", "rounds b-j of rule writing")
open("DESIGN.md", "w").write(s)
print(rep)
